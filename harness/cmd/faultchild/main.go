// faultchild performs ONE database operation (or one FileCache.Write) between
// two markers so that the parent can run it under strace with a syscall fault
// injected at an exact position.  The main goroutine is locked to the main
// thread: strace's when= counters are per thread, and every file-system call
// of the operation is issued from this goroutine.
package main

import (
	"crypto/sha256"
	"encoding/json"
	"fmt"
	"io"
	"os"
	"os/signal"
	"runtime"
	"strconv"
	"syscall"

	"github.com/tailscale/setec/audit"
	"github.com/tailscale/setec/client/setec"
	"github.com/tailscale/setec/db"
	"verifharness/dbx"
)

func init() { runtime.LockOSThread() }

// mark writes one line to stdout with exactly one write system call.
func mark(s string) { syscall.Write(1, []byte(s+"\n")) }

func setFsize(limit int64) (restore func()) {
	if limit < 0 {
		return func() {}
	}
	var old syscall.Rlimit
	syscall.Getrlimit(syscall.RLIMIT_FSIZE, &old)
	syscall.Setrlimit(syscall.RLIMIT_FSIZE, &syscall.Rlimit{Cur: uint64(limit), Max: old.Max})
	return func() { syscall.Setrlimit(syscall.RLIMIT_FSIZE, &old) }
}

type opOut struct {
	Class string `json:"class"`
	Ver   uint32 `json:"ver"`
	Err   string `json:"err"`
}

func doOp(d *db.DB, o dbx.Op) opOut {
	r := dbx.DBTarget{D: d}.Do(dbx.Super(), o, uint32(o.VArg))
	return opOut{Class: r.Class.String(), Ver: r.Ver, Err: r.Err}
}

func dumpLine(tag string, d *db.DB) {
	kv, err := dbx.Dump(d)
	if err != nil {
		mark(tag + " ERROR " + err.Error())
		return
	}
	b, _ := json.Marshal(kv.Render(false))
	mark(tag + " " + string(b))
}

// fileLine reports what is on disk right now (before any retry rewrites it).
func fileLine(path string) {
	b, err := os.ReadFile(path)
	if err != nil {
		mark("FILE absent")
		return
	}
	mark(fmt.Sprintf("FILE %x", sha256.Sum256(b)))
}

func main() {
	signal.Ignore(syscall.SIGXFSZ)
	if len(os.Args) < 2 {
		os.Exit(64)
	}
	switch os.Args[1] {
	case "db", "create":
		// faultchild db|create <path> <fsize-limit> <op-json> <retry-op-json> [same]
		// with "same": when the operation reports a failure, the identical operation is repeated at once
		// (what a client does), the result and served state are reported, and the file as it is on disk
		// at that moment is copied to <path>.same - before the probe operation rewrites it
		path := os.Args[2]
		limit, _ := strconv.ParseInt(os.Args[3], 10, 64)
		var op, retry dbx.Op
		json.Unmarshal([]byte(os.Args[4]), &op)
		json.Unmarshal([]byte(os.Args[5]), &retry)
		key := dbx.DummyKey()
		var d *db.DB
		var err error
		if os.Args[1] == "db" {
			d, err = db.Open(path, key, audit.New(io.Discard))
			if err != nil {
				mark("OPENFAIL " + err.Error())
				os.Exit(3)
			}
		}
		restore := setFsize(limit)
		mark("BEGIN")
		var out opOut
		if os.Args[1] == "create" {
			d, err = db.Open(path, key, audit.New(io.Discard))
			out = opOut{Class: "ok"}
			if err != nil {
				out = opOut{Class: "other-error", Err: err.Error()}
			}
		} else {
			out = doOp(d, op)
		}
		b, _ := json.Marshal(out)
		mark("RESULT " + string(b))
		restore()
		fileLine(path)
		if d != nil {
			dumpLine("DUMP", d)
		} else {
			// creation failed: a later open must work
			d, err = db.Open(path, key, audit.New(io.Discard))
			if err != nil {
				mark("REOPENFAIL " + err.Error())
				os.Exit(4)
			}
			dumpLine("DUMP", d)
		}
		if os.Args[1] == "db" && len(os.Args) > 6 && os.Args[6] == "same" && out.Class != "ok" {
			b, _ = json.Marshal(doOp(d, op))
			mark("SAME " + string(b))
			dumpLine("DUMPSAME", d)
			if cp, err := os.ReadFile(path); err == nil {
				os.WriteFile(path+".same", cp, 0o600)
			}
		}
		b, _ = json.Marshal(doOp(d, retry))
		mark("RETRY " + string(b))
		dumpLine("DUMP2", d)
		mark("END")
	case "cache":
		// faultchild cache <path> <fsize-limit> <file-with-new-contents> <file-with-retry-contents>
		path := os.Args[2]
		limit, _ := strconv.ParseInt(os.Args[3], 10, 64)
		data, _ := os.ReadFile(os.Args[4])
		data2, _ := os.ReadFile(os.Args[5])
		fc, err := setec.NewFileCache(path)
		if err != nil {
			mark("OPENFAIL " + err.Error())
			os.Exit(3)
		}
		restore := setFsize(limit)
		mark("BEGIN")
		err = fc.Write(data)
		out := opOut{Class: "ok"}
		if err != nil {
			out = opOut{Class: "other-error", Err: err.Error()}
		}
		b, _ := json.Marshal(out)
		mark("RESULT " + string(b))
		restore()
		got, rerr := fc.Read()
		mark(fmt.Sprintf("DUMP %d %v", len(got), rerr))
		err = fc.Write(data2)
		out = opOut{Class: "ok"}
		if err != nil {
			out = opOut{Class: "other-error", Err: err.Error()}
		}
		b, _ = json.Marshal(out)
		mark("RETRY " + string(b))
		mark("END")
	default:
		os.Exit(64)
	}
}
