package dbx

import (
	"context"
	"encoding/json"
	"errors"
	"net/http"

	"github.com/tailscale/setec/db"
	"github.com/tailscale/setec/server"
	"tailscale.com/client/tailscale/apitype"
	"tailscale.com/tailcfg"
	"verifharness/model"
)

// WhoIsOf renders a caller as the tailnet's answer about it.
func WhoIsOf(c CallerM) *apitype.WhoIsResponse {
	w := &apitype.WhoIsResponse{
		Node:        &tailcfg.Node{Name: c.Host, Tags: append([]string(nil), c.Tags...)},
		UserProfile: &tailcfg.UserProfile{LoginName: c.User},
		CapMap:      tailcfg.PeerCapMap{},
	}
	var raws []tailcfg.RawMessage
	for _, r := range c.Rules {
		b, _ := json.Marshal(r)
		raws = append(raws, tailcfg.RawMessage(b))
	}
	if raws != nil {
		w.CapMap[server.ACLCap] = raws
	}
	return w
}

func AddrOf(c CallerM) string { return c.IP + ":4242" }

// NewHTTP registers the real server's handlers for d on a fresh mux, with a
// WhoIs table made of callers.
func NewHTTP(d *db.DB, callers []CallerM) (*HTTPTarget, error) {
	return NewHTTPCtx(context.Background(), d, callers)
}

// NewHTTPCtx is NewHTTP with the context the server is constructed with.
func NewHTTPCtx(sctx context.Context, d *db.DB, callers []CallerM) (*HTTPTarget, error) {
	table := map[string]*apitype.WhoIsResponse{}
	for _, c := range callers {
		table[AddrOf(c)] = WhoIsOf(c)
	}
	mux := http.NewServeMux()
	ht := &HTTPTarget{Mux: mux, AddrOf: AddrOf}
	_, err := server.New(sctx, server.Config{
		DB:  d,
		Mux: mux,
		WhoIs: func(ctx context.Context, addr string) (*apitype.WhoIsResponse, error) {
			if ht.WhoIsDown.Load() {
				return nil, errors.New("tailscaled is not reachable (injected)")
			}
			if w, ok := table[addr]; ok {
				return w, nil
			}
			return nil, errors.New("no such peer")
		},
	})
	if err != nil {
		return nil, err
	}
	return ht, nil
}

// Restricted builds caller i (i >= 1) holding rules.
func Restricted(i int, rules []model.Rule) CallerM {
	c := CallerM{Rules: rules, Host: "node" + string(rune('0'+i)) + ".example.ts.net", IP: "100.64.0." + string(rune('1'+i))}
	if i%2 == 1 {
		c.User = "user" + string(rune('0'+i)) + "@example.com"
	} else {
		c.Tags = []string{"tag:svc" + string(rune('0'+i))}
	}
	return c
}
