// Package dbx holds what the database-side checks share: the operation
// vocabulary (pure data, so histories shrink and replay), execution of an
// operation against the real db.DB or the real HTTP handlers, and the expected
// result computed from the sequential model plus the ACL model.
package dbx

import (
	"bytes"
	"context"
	"errors"
	"fmt"
	"io"
	"net/http"
	"net/http/httptest"
	"net/netip"
	"os"
	"path/filepath"
	"sort"
	"strings"
	"sync/atomic"

	"github.com/tailscale/setec/acl"
	"github.com/tailscale/setec/audit"
	"github.com/tailscale/setec/client/setec"
	"github.com/tailscale/setec/db"
	"github.com/tailscale/setec/types/api"
	"github.com/tink-crypto/tink-go/v2/testutil"
	"github.com/tink-crypto/tink-go/v2/tink"
	"pgregory.net/rapid"
	"verifharness/model"
)

// Op is one API call, as pure data.
type Op struct {
	Kind   string `json:"kind"` // put activate delver del get getver cond info list
	Name   string `json:"name"`
	Val    []byte `json:"val,omitempty"`
	VSel   string `json:"vsel,omitempty"` // zero active latest next existing inactive deleted huge abs
	VArg   int    `json:"varg,omitempty"`
	Caller int    `json:"caller,omitempty"` // index into the scenario's caller table; 0 = superuser
}

func (o Op) String() string {
	switch o.Kind {
	case "put":
		return fmt.Sprintf("put(%q,%q)#c%d", o.Name, o.Val, o.Caller)
	case "list":
		return fmt.Sprintf("list#c%d", o.Caller)
	case "get", "info", "del":
		return fmt.Sprintf("%s(%q)#c%d", o.Kind, o.Name, o.Caller)
	}
	return fmt.Sprintf("%s(%q,%s:%d)#c%d", o.Kind, o.Name, o.VSel, o.VArg, o.Caller)
}

func (o Op) Mutating() bool {
	switch o.Kind {
	case "put", "activate", "delver", "del":
		return true
	}
	return false
}

// ActionOf is the ACL action the property says the operation requires.
func ActionOf(kind string) string {
	switch kind {
	case "put":
		return "put"
	case "activate":
		return "activate"
	case "delver", "del":
		return "delete"
	case "get", "getver", "cond":
		return "get"
	case "info":
		return "info"
	}
	return ""
}

// Tracker is the model state plus the version numbers deleted in the current
// incarnation of each name (so "a deleted version" can be selected).
type Tracker struct {
	M       model.KV
	Deleted map[string][]uint32
	Wire    bool // the target is the wire protocol, where get-version 0 means "active"
}

func NewTracker() *Tracker { return &Tracker{M: model.KV{}, Deleted: map[string][]uint32{}} }

func (t *Tracker) Clone() *Tracker {
	n := &Tracker{M: t.M.Clone(), Deleted: map[string][]uint32{}, Wire: t.Wire}
	for k, v := range t.Deleted {
		n.Deleted[k] = append([]uint32(nil), v...)
	}
	return n
}

// Resolve turns the operation's version selector into a number.
func (t *Tracker) Resolve(o Op) uint32 {
	s := t.M[o.Name]
	arg := o.VArg
	if arg < 0 {
		arg = -arg
	}
	switch o.VSel {
	case "zero", "":
		return 0
	case "huge":
		return 4294967295
	case "abs":
		return uint32(arg)
	}
	if s == nil {
		return uint32(arg%4 + 1)
	}
	switch o.VSel {
	case "active":
		return s.Active
	case "latest":
		return s.Latest
	case "next":
		return s.Latest + 1
	case "existing":
		vs := make([]int, 0, len(s.Vers))
		for v := range s.Vers {
			vs = append(vs, int(v))
		}
		sort.Ints(vs)
		return uint32(vs[arg%len(vs)])
	case "inactive":
		vs := make([]int, 0, len(s.Vers))
		for v := range s.Vers {
			if v != s.Active {
				vs = append(vs, int(v))
			}
		}
		if len(vs) == 0 {
			return s.Latest + 1
		}
		sort.Ints(vs)
		return uint32(vs[arg%len(vs)])
	case "deleted":
		if d := t.Deleted[o.Name]; len(d) > 0 {
			return d[arg%len(d)]
		}
		return s.Latest + 2
	}
	return uint32(arg)
}

// Result of one call, from the code or from the model.
type Result struct {
	Class    model.Class
	AltOther bool // expected only: "some other error" is acceptable too
	// expected only: "not found" is acceptable too - two refusal reasons apply (the version number 0
	// is invalid AND the secret does not exist) and no property says which one is reported
	AltNotFound bool
	Ver         uint32
	Val         []byte
	HasVal      bool
	Info        *model.InfoM
	List        []model.InfoM
	IsList      bool
	Err         string
}

func (r Result) String() string {
	s := r.Class.String()
	if r.HasVal {
		s += fmt.Sprintf(" v%d=%q", r.Ver, r.Val)
	} else if r.Ver != 0 {
		s += fmt.Sprintf(" v%d", r.Ver)
	}
	if r.Info != nil {
		s += fmt.Sprintf(" info=%+v", *r.Info)
	}
	if r.IsList {
		s += fmt.Sprintf(" list=%+v", r.List)
	}
	if r.Err != "" {
		s += " err=" + r.Err
	}
	return s
}

// Expect computes the result the property demands for op by a caller holding
// rules, in state t, and applies the effect to t when (and only when) the
// call is allowed and succeeds.
func (t *Tracker) Expect(rules []model.Rule, o Op, ver uint32) Result {
	m := t.M
	if o.Kind == "list" {
		r := Result{Class: model.OK, IsList: true}
		for _, n := range m.Names() {
			if model.Allow(rules, "info", n) {
				in, _ := m.Info(n)
				r.List = append(r.List, in)
			}
		}
		return r
	}
	malformed := (o.Kind == "put" || o.Kind == "activate") && o.Name == ""
	if !model.Allow(rules, ActionOf(o.Kind), o.Name) {
		return Result{Class: model.Denied, AltOther: malformed}
	}
	switch o.Kind {
	case "put":
		v, c := m.Put(o.Name, string(o.Val))
		if c == model.OK {
			return Result{Class: c, Ver: v}
		}
		return Result{Class: c}
	case "activate":
		bothApply := ver == 0 && o.Name != "" && m[o.Name] == nil
		c := m.Activate(o.Name, ver)
		return Result{Class: c, AltNotFound: bothApply && c == model.Other}
	case "delver":
		bothApply := ver == 0 && m[o.Name] == nil // (the empty name is not refused as such by delete-version)
		c := m.DeleteVersion(o.Name, ver)
		if c == model.OK {
			t.Deleted[o.Name] = append(t.Deleted[o.Name], ver)
		}
		return Result{Class: c, AltNotFound: bothApply && c == model.Other}
	case "del":
		c := m.Delete(o.Name)
		if c == model.OK {
			delete(t.Deleted, o.Name)
		}
		return Result{Class: c}
	case "get":
		v, b, c := m.Get(o.Name)
		if c != model.OK {
			return Result{Class: c}
		}
		return Result{Class: c, Ver: v, Val: []byte(b), HasVal: true}
	case "getver":
		if ver == 0 && t.Wire { // version 0 means "the active version" on the wire
			v, b, c := m.Get(o.Name)
			if c != model.OK {
				return Result{Class: c}
			}
			return Result{Class: c, Ver: v, Val: []byte(b), HasVal: true}
		}
		b, c := m.GetVersion(o.Name, ver)
		if c != model.OK {
			return Result{Class: c}
		}
		return Result{Class: c, Ver: ver, Val: []byte(b), HasVal: true}
	case "cond":
		v, b, c := m.Get(o.Name)
		if c != model.OK {
			return Result{Class: c}
		}
		if ver != 0 && ver == v {
			return Result{Class: model.NotChanged}
		}
		return Result{Class: c, Ver: v, Val: []byte(b), HasVal: true}
	case "info":
		in, c := m.Info(o.Name)
		if c != model.OK {
			return Result{Class: c}
		}
		return Result{Class: c, Info: &in}
	}
	panic("unknown op kind " + o.Kind)
}

// Compare returns "" when got satisfies want.
func Compare(got, want Result) string {
	if got.Class != want.Class && !(want.AltOther && got.Class == model.Other) && !(want.AltNotFound && got.Class == model.NotFound) {
		return fmt.Sprintf("outcome %s, want %s", got, want)
	}
	if got.Class != model.OK {
		if got.HasVal || got.Info != nil || len(got.List) != 0 {
			return fmt.Sprintf("failed call returned data: %s", got)
		}
		return ""
	}
	if want.HasVal != got.HasVal || !bytes.Equal(want.Val, got.Val) || want.Ver != got.Ver {
		return fmt.Sprintf("result %s, want %s", got, want)
	}
	if (want.Info == nil) != (got.Info == nil) || (want.Info != nil && !infoEq(*want.Info, *got.Info)) {
		return fmt.Sprintf("result %s, want %s", got, want)
	}
	if want.IsList {
		if len(want.List) != len(got.List) {
			return fmt.Sprintf("list %+v, want %+v", got.List, want.List)
		}
		// no property fixes the ORDER of a listing: compared as sets of entries (a name listed twice
		// would show as a mismatch, the model has every name once)
		w, g := byName(want.List), byName(got.List)
		for i := range w {
			if !infoEq(w[i], g[i]) {
				return fmt.Sprintf("list %+v, want %+v", got.List, want.List)
			}
		}
	}
	return ""
}

func byName(l []model.InfoM) []model.InfoM {
	out := append([]model.InfoM{}, l...)
	sort.SliceStable(out, func(i, j int) bool { return out[i].Name < out[j].Name })
	return out
}

func sortedVers(v []uint32) []uint32 {
	out := append([]uint32{}, v...)
	sort.Slice(out, func(i, j int) bool { return out[i] < out[j] })
	return out
}

func infoEq(a, b model.InfoM) bool {
	if a.Name != b.Name || a.Active != b.Active || len(a.Versions) != len(b.Versions) {
		return false
	}
	av, bv := sortedVers(a.Versions), sortedVers(b.Versions) // (the order in which versions are listed is not fixed either)
	for i := range av {
		if av[i] != bv[i] {
			return false
		}
	}
	return true
}

// ---------------------------------------------------------------- callers

// CallerM is a caller identity as pure data.
type CallerM struct {
	Rules []model.Rule `json:"rules"`
	User  string       `json:"user,omitempty"`
	Tags  []string     `json:"tags,omitempty"`
	Host  string       `json:"host"`
	IP    string       `json:"ip"`
}

func Super() CallerM {
	return CallerM{Rules: model.SuperRules(), User: "root@example.com", Host: "super.example.ts.net", IP: "100.64.0.1"}
}

func ToACL(rs []model.Rule) acl.Rules {
	out := acl.Rules{}
	for _, r := range rs {
		var ar acl.Rule
		for _, a := range r.Action {
			ar.Action = append(ar.Action, acl.Action(a))
		}
		for _, s := range r.Secret {
			ar.Secret = append(ar.Secret, acl.Secret(s))
		}
		out = append(out, ar)
	}
	return out
}

func (c CallerM) DB() db.Caller {
	ip, err := netip.ParseAddr(c.IP)
	if err != nil {
		ip = netip.MustParseAddr("100.64.0.99")
	}
	return db.Caller{
		Principal:   audit.Principal{User: c.User, Tags: append([]string(nil), c.Tags...), Hostname: c.Host, IP: ip},
		Permissions: ToACL(c.Rules),
	}
}

// ---------------------------------------------------------------- targets

// Target executes operations against real code.
type Target interface {
	Do(c CallerM, o Op, ver uint32) Result
}

func classify(err error) model.Class {
	switch {
	case err == nil:
		return model.OK
	case errors.Is(err, db.ErrAccessDenied), errors.Is(err, api.ErrAccessDenied):
		return model.Denied
	case errors.Is(err, db.ErrNotFound), errors.Is(err, api.ErrNotFound):
		return model.NotFound
	case errors.Is(err, api.ErrValueNotChanged):
		return model.NotChanged
	}
	return model.Other
}

func errText(err error) string {
	if err == nil {
		return ""
	}
	return err.Error()
}

func infoOf(in *api.SecretInfo) model.InfoM {
	m := model.InfoM{Name: in.Name, Active: uint32(in.ActiveVersion)}
	for _, v := range in.Versions {
		m.Versions = append(m.Versions, uint32(v))
	}
	return m
}

func scribble(b []byte) {
	for i := range b {
		b[i] ^= 0xA5
	}
}

func valResult(sv *api.SecretValue, err error) Result {
	r := Result{Class: classify(err), Err: errText(err)}
	if sv != nil {
		r.HasVal = true
		r.Ver = uint32(sv.Version)
		r.Val = append([]byte{}, sv.Value...)
		scribble(sv.Value) // the caller owns what it got back; the store must not care
	}
	return r
}

// DBTarget calls db.DB directly.
type DBTarget struct {
	D *db.DB
	// Keep, if non-nil, retains every *api.SecretInfo the database handed out together
	// with a snapshot; Unchanged later reports any that was edited behind the caller's back.
	Keep *Retained
}

type Retained struct {
	infos []*api.SecretInfo
	snaps []model.InfoM
	// whole list results: the slice as it was handed out (same backing array) and what it showed then
	lists     [][]*api.SecretInfo
	listSnaps [][]model.InfoM
}

func (r *Retained) addList(ins []*api.SecretInfo) {
	if r == nil {
		return
	}
	var snap []model.InfoM
	for _, in := range ins {
		if in != nil {
			snap = append(snap, infoOf(in))
		}
	}
	r.lists = append(r.lists, ins)
	r.listSnaps = append(r.listSnaps, snap)
}

func (r *Retained) add(in *api.SecretInfo) {
	if r == nil || in == nil {
		return
	}
	r.infos = append(r.infos, in)
	r.snaps = append(r.snaps, infoOf(in))
}

// Unchanged returns "" if every retained result still equals what it was when returned.
func (r *Retained) Unchanged() string {
	if r == nil {
		return ""
	}
	for i, in := range r.infos {
		if now := infoOf(in); !infoEq(now, r.snaps[i]) {
			return fmt.Sprintf("a result returned earlier (%+v) now reads %+v", r.snaps[i], now)
		}
	}
	for i, ins := range r.lists {
		var now []model.InfoM
		for _, in := range ins {
			if in != nil {
				now = append(now, infoOf(in))
			}
		}
		same := len(now) == len(r.listSnaps[i])
		for j := 0; same && j < len(now); j++ {
			same = infoEq(now[j], r.listSnaps[i][j])
		}
		if !same {
			return fmt.Sprintf("a list result returned earlier (%+v) now reads %+v", r.listSnaps[i], now)
		}
	}
	return ""
}

func (t DBTarget) Do(c CallerM, o Op, ver uint32) Result {
	cl := c.DB()
	v := api.SecretVersion(ver)
	switch o.Kind {
	case "put":
		in := append([]byte{}, o.Val...)
		if o.Val == nil && len(o.Name)%2 == 0 {
			in = nil
		}
		got, err := t.D.Put(cl, o.Name, in)
		scribble(in) // the store must have taken a copy
		return Result{Class: classify(err), Ver: uint32(got), Err: errText(err)}
	case "activate":
		err := t.D.Activate(cl, o.Name, v)
		return Result{Class: classify(err), Err: errText(err)}
	case "delver":
		err := t.D.DeleteVersion(cl, o.Name, v)
		return Result{Class: classify(err), Err: errText(err)}
	case "del":
		err := t.D.Delete(cl, o.Name)
		return Result{Class: classify(err), Err: errText(err)}
	case "get":
		return valResult(t.D.Get(cl, o.Name))
	case "getver":
		return valResult(t.D.GetVersion(cl, o.Name, v))
	case "cond":
		return valResult(t.D.GetConditional(cl, o.Name, v))
	case "info":
		in, err := t.D.Info(cl, o.Name)
		r := Result{Class: classify(err), Err: errText(err)}
		if in != nil {
			m := infoOf(in)
			r.Info = &m
			t.Keep.add(in)
		}
		return r
	case "list":
		ins, err := t.D.List(cl)
		r := Result{Class: classify(err), Err: errText(err), IsList: true}
		for _, in := range ins {
			r.List = append(r.List, infoOf(in))
			t.Keep.add(in)
		}
		t.Keep.addList(ins)
		return r
	}
	panic("unknown op kind " + o.Kind)
}

// HTTPTarget goes through setec.Client and the server's registered handlers.
// AddrOf maps a caller to the RemoteAddr the request appears to come from; the
// server's WhoIs table (owned by the test) maps that back to the identity.
type HTTPTarget struct {
	Mux    *http.ServeMux
	AddrOf func(c CallerM) string
	// LastStatus and LastBody record the most recent raw reply.
	LastStatus int
	LastBody   []byte
	// Headers are added to every request (e.g. forwarding headers a client is free to send).
	Headers map[string]string
	// WhoIsDown: while set, the identity lookup fails for every request (the local tailscaled is away).
	WhoIsDown atomic.Bool
	// Chunked: request bodies are sent without a declared length (Transfer-Encoding: chunked).
	Chunked bool
	// BreakAfter > 0: the NEXT request's connection breaks once the server has written that many bytes
	// of its answer (the client hung up): further writes fail, the caller gets a transport error.
	BreakAfter int
}

// brokenConn is a ResponseWriter whose connection breaks after n bytes of body.
type brokenConn struct {
	hdr  http.Header
	left int
}

func (b *brokenConn) Header() http.Header { return b.hdr }
func (b *brokenConn) WriteHeader(int)     {}
func (b *brokenConn) Write(p []byte) (int, error) {
	if len(p) <= b.left {
		b.left -= len(p)
		return len(p), nil
	}
	n := b.left
	b.left = 0
	return n, errors.New("write: broken pipe")
}

func (t *HTTPTarget) client(c CallerM) setec.Client {
	return setec.Client{Server: "http://setec.test", DoHTTP: func(r *http.Request) (*http.Response, error) {
		r.RemoteAddr = t.AddrOf(c)
		for k, v := range t.Headers {
			r.Header.Set(k, v)
		}
		if t.Chunked {
			r.ContentLength, r.TransferEncoding = -1, []string{"chunked"}
		}
		if n := t.BreakAfter; n > 0 {
			t.BreakAfter = 0
			t.Mux.ServeHTTP(&brokenConn{hdr: http.Header{}, left: n}, r)
			return nil, errors.New("read: connection reset by peer")
		}
		w := httptest.NewRecorder()
		t.Mux.ServeHTTP(w, r)
		t.LastStatus = w.Code
		t.LastBody = append([]byte{}, w.Body.Bytes()...)
		return w.Result(), nil
	}}
}

func (t *HTTPTarget) Do(c CallerM, o Op, ver uint32) Result {
	cl := t.client(c)
	ctx := context.Background()
	v := api.SecretVersion(ver)
	switch o.Kind {
	case "put":
		got, err := cl.Put(ctx, o.Name, append([]byte{}, o.Val...))
		return Result{Class: classify(err), Ver: uint32(got), Err: errText(err)}
	case "activate":
		err := cl.Activate(ctx, o.Name, v)
		return Result{Class: classify(err), Err: errText(err)}
	case "delver":
		err := cl.DeleteVersion(ctx, o.Name, v)
		return Result{Class: classify(err), Err: errText(err)}
	case "del":
		err := cl.Delete(ctx, o.Name)
		return Result{Class: classify(err), Err: errText(err)}
	case "get":
		return valResult(cl.Get(ctx, o.Name))
	case "getver":
		return valResult(cl.GetVersion(ctx, o.Name, v))
	case "cond":
		return valResult(cl.GetIfChanged(ctx, o.Name, v))
	case "info":
		in, err := cl.Info(ctx, o.Name)
		r := Result{Class: classify(err), Err: errText(err)}
		if in != nil && err == nil {
			m := infoOf(in)
			r.Info = &m
		}
		return r
	case "list":
		ins, err := cl.List(ctx)
		r := Result{Class: classify(err), Err: errText(err), IsList: true}
		for _, in := range ins {
			r.List = append(r.List, infoOf(in))
		}
		return r
	}
	panic("unknown op kind " + o.Kind)
}

// ---------------------------------------------------------------- dump

// Dump reads the complete visible state as a superuser: list, then info, get
// and get-version of everything, cross-checking them against each other.
// The Latest counters are not visible and are left 0.
func Dump(d *db.DB) (model.KV, error) {
	su := Super().DB()
	out := model.KV{}
	infos, err := d.List(su)
	if err != nil {
		return nil, fmt.Errorf("list: %w", err)
	}
	listed := map[string]bool{}
	for _, in := range infos {
		if listed[in.Name] {
			return nil, fmt.Errorf("list shows %q twice", in.Name)
		}
		listed[in.Name] = true
		s := &model.Sec{Vers: map[uint32]string{}, Active: uint32(in.ActiveVersion)}
		for _, v := range in.Versions {
			sv, err := d.GetVersion(su, in.Name, v)
			if err != nil {
				return nil, fmt.Errorf("listed version %d of %q not retrievable: %w", v, in.Name, err)
			}
			if sv.Version != v {
				return nil, fmt.Errorf("get-version %d of %q returned version %d", v, in.Name, sv.Version)
			}
			s.Vers[uint32(v)] = string(sv.Value)
		}
		in2, err := d.Info(su, in.Name)
		if err != nil {
			return nil, fmt.Errorf("info of listed %q: %w", in.Name, err)
		}
		if !infoEq(infoOf(in), infoOf(in2)) {
			return nil, fmt.Errorf("list and info disagree on %q: %+v vs %+v", in.Name, in, in2)
		}
		sv, err := d.Get(su, in.Name)
		if err != nil {
			return nil, fmt.Errorf("get of listed %q: %w", in.Name, err)
		}
		if sv.Version != in.ActiveVersion || string(sv.Value) != s.Vers[uint32(in.ActiveVersion)] {
			return nil, fmt.Errorf("get of %q returned v%d %q, info says active %d = %q", in.Name, sv.Version, sv.Value, in.ActiveVersion, s.Vers[uint32(in.ActiveVersion)])
		}
		if _, ok := s.Vers[s.Active]; !ok {
			return nil, fmt.Errorf("active version %d of %q does not exist", s.Active, in.Name)
		}
		out[in.Name] = s
	}
	return out, nil
}

// DumpVia reads the complete visible state through a Target (e.g. the HTTP front door) as caller su:
// list, then info, get, get-version of every version, and a CONDITIONAL get naming every existing
// version, the next unassigned one and every number in probe[name] (versions that once were or were
// asked for): "not changed" exactly for the active version, the active version's value otherwise.
func DumpVia(t Target, su CallerM, probe map[string][]uint32) (model.KV, error) {
	out := model.KV{}
	lr := t.Do(su, Op{Kind: "list"}, 0)
	if lr.Class != model.OK {
		return nil, fmt.Errorf("list: %s", lr)
	}
	listed := map[string]bool{}
	for _, in := range lr.List {
		if listed[in.Name] {
			return nil, fmt.Errorf("list shows %q twice", in.Name)
		}
		listed[in.Name] = true
		s := &model.Sec{Vers: map[uint32]string{}, Active: in.Active}
		maxV := uint32(0)
		for _, v := range in.Versions {
			r := t.Do(su, Op{Kind: "getver", Name: in.Name}, v)
			if r.Class != model.OK || r.Ver != v {
				return nil, fmt.Errorf("listed version %d of %q: get-version gives %s", v, in.Name, r)
			}
			s.Vers[v] = string(r.Val)
			if v > maxV {
				maxV = v
			}
		}
		ir := t.Do(su, Op{Kind: "info", Name: in.Name}, 0)
		if ir.Class != model.OK || ir.Info == nil || !infoEq(*ir.Info, in) {
			return nil, fmt.Errorf("list and info disagree on %q: %+v vs %s", in.Name, in, ir)
		}
		gr := t.Do(su, Op{Kind: "get", Name: in.Name}, 0)
		if gr.Class != model.OK || gr.Ver != in.Active || string(gr.Val) != s.Vers[in.Active] {
			return nil, fmt.Errorf("get of %q gives %s, info says active %d = %q", in.Name, gr, in.Active, s.Vers[in.Active])
		}
		if _, ok := s.Vers[s.Active]; !ok {
			return nil, fmt.Errorf("active version %d of %q does not exist", s.Active, in.Name)
		}
		asks := append(append([]uint32{maxV + 1}, in.Versions...), probe[in.Name]...)
		for _, v := range asks {
			if v == 0 {
				continue
			}
			cr := t.Do(su, Op{Kind: "cond", Name: in.Name}, v)
			if v == in.Active {
				if cr.Class != model.NotChanged {
					return nil, fmt.Errorf("conditional get of %q naming its active version %d gives %s, want not-changed", in.Name, v, cr)
				}
			} else if cr.Class != model.OK || cr.Ver != in.Active || string(cr.Val) != s.Vers[in.Active] {
				return nil, fmt.Errorf("conditional get of %q naming version %d (active is %d) gives %s, want the active version and its value", in.Name, v, in.Active, cr)
			}
		}
		out[in.Name] = s
	}
	return out, nil
}

// DumpDiff compares a dump with the model ("" when equal).
func DumpDiff(got model.KV, want model.KV) string {
	g, w := got.Render(false), want.Render(false)
	if g != w {
		return fmt.Sprintf("state is\n    %s\n  model says\n    %s", g, w)
	}
	return ""
}

// ---------------------------------------------------------------- opening

func DummyKey() tink.AEAD { return &testutil.DummyAEAD{Name: "verif-kek"} }

func DummyKeyNamed(name string) tink.AEAD { return &testutil.DummyAEAD{Name: name} }

func OpenDiscard(path string, key tink.AEAD) (*db.DB, error) {
	return db.Open(path, key, audit.New(io.Discard))
}

// ---------------------------------------------------------------- generators

var BaseNames = []string{"a", "b", "dev/c"}
var OddNames = []string{"", "_internal/x", "a ", " dev/c", "_internal/a", "_internal", "_internalx",
	// differs from a base name in letter case only: names are compared byte for byte
	"A", "Dev/c"}

// ExoticNames are legal secret names with unusual content. The service treats names as opaque
// strings (non-empty, valid UTF-8, not under the reserved prefix), so each of them must behave
// exactly like "a": bytes that JSON or HTML must escape, non-ASCII text, characters that mean
// something to fmt, to regular expressions or to path cleaning, names that look like another
// name plus a version number, and words the implementation uses internally as keys.
var ExoticNames = []string{"a\nb", "a\tb", "k\x00", "\x1bx", "clé-privée", "秘密/鍵", "prod/db password", "100%", "%s", "%%",
	"a/2", "a/1", "b/1", "dev//c", "dev/c/", "dev/./c", "../a", "poll", "lookup:a", "a\"b", "a\\b", "<a&b>", "a.b", "a?", "a+",
	"(a)", "[a]", "a$", "^a", "a|b", "a b", "ÅSA", strings.Repeat("n", 300)}

// Exotic draws one exotic name; histories add it to their name pool so that every history has
// a few calls on one such name without thinning out the histories of the ordinary names.
func Exotic(rt *rapid.T) string { return rapid.SampledFrom(ExoticNames).Draw(rt, "exotic-name") }

var ValuePool = [][]byte{{}, []byte("x"), []byte("y"), []byte("zz"), nil, []byte(" "), []byte("x\n"), []byte("x")}
var vsels = []string{"zero", "active", "latest", "next", "existing", "existing", "deleted", "huge", "abs"}
var opKindsMut = []string{"put", "put", "put", "activate", "activate", "delver", "delver", "del", "get", "getver", "cond", "info", "list"}

// GenOp draws one operation over names; callers is the size of the caller table.
func GenOp(rt *rapid.T, names []string, kinds []string, callers int) Op {
	o := Op{Kind: rapid.SampledFrom(kinds).Draw(rt, "kind")}
	if o.Kind != "list" {
		o.Name = rapid.SampledFrom(names).Draw(rt, "name")
	}
	switch o.Kind {
	case "put":
		if rapid.IntRange(0, 5).Draw(rt, "fresh") == 0 {
			o.Val = rapid.SliceOfN(rapid.Byte(), 0, 12).Draw(rt, "bytes")
		} else {
			o.Val = rapid.SampledFrom(ValuePool).Draw(rt, "val")
		}
	case "activate", "delver", "getver", "cond":
		o.VSel = rapid.SampledFrom(vsels).Draw(rt, "vsel")
		if o.Kind == "activate" {
			switch rapid.IntRange(0, 3).Draw(rt, "act-sel") {
			case 0, 1:
				o.VSel = "existing" // make activations that succeed (forwards and backwards) frequent
			case 2:
				o.VSel = "deleted" // ... and activations of a version that was there once
			}
		}
		if o.Kind == "delver" && rapid.IntRange(0, 2).Draw(rt, "del-inactive") == 0 {
			o.VSel = "inactive" // make delete-versions that succeed frequent
		}
		if o.VSel == "existing" || o.VSel == "deleted" || o.VSel == "abs" || o.VSel == "inactive" {
			o.VArg = rapid.IntRange(0, 6).Draw(rt, "varg")
		}
	}
	if callers > 1 {
		o.Caller = rapid.IntRange(0, callers-1).Draw(rt, "caller")
	}
	return o
}

// GenHistory draws a superuser history.
func GenHistory(rt *rapid.T, minLen, maxLen int) []Op {
	names := append(append([]string{}, BaseNames...), OddNames...)
	// weight the ordinary names, the first one most
	names = append(names, BaseNames...)
	names = append(names, "a", "a", "a", "b")
	if ex := Exotic(rt); true {
		names = append(names, ex, ex)
	}
	// about half of a history's calls go to one focus name, so that deep per-name histories
	// (several versions, deletions among them, re-activations) are common
	if lo := rapid.SampledFrom([]int{1, 1, 8, 15}).Draw(rt, "minlen"); lo > minLen && lo <= maxLen {
		minLen = lo // rapid prefers short slices; a good share of histories should be long
	}
	focus := rapid.SampledFrom(names).Draw(rt, "focus")
	for i, n := 0, len(names); i < n; i++ {
		names = append(names, focus)
	}
	return rapid.SliceOfN(rapid.Custom(func(rt *rapid.T) Op { return GenOp(rt, names, opKindsMut, 1) }), minLen, maxLen).Draw(rt, "ops")
}

// DeepPuts is a prefix that gives one secret n versions with pairwise different values: a secret that
// has been rotated many times (versions are never pruned behind the caller's back).
func DeepPuts(name string, n int) []Op {
	ops := make([]Op, 0, n)
	for i := 0; i < n; i++ {
		ops = append(ops, Op{Kind: "put", Name: name, Val: []byte(fmt.Sprintf("rotation-%d", i))})
	}
	return ops
}

// GenDeep draws how many versions such a prefix creates (0 = none; one history in sixty has one).
func GenDeep(rt *rapid.T) int {
	if rapid.IntRange(0, 59).Draw(rt, "deep") != 0 {
		return 0
	}
	return rapid.SampledFrom([]int{66, 66, 130, 260}).Draw(rt, "deep-n")
}

// HistoryClasses classifies a history by the interesting shapes it contains.
func HistoryClasses(ops []Op, res []model.Class) (classes []string, nontrivial bool) {
	seen := map[string]bool{}
	lastDelver, lastActOlder, deleted := map[string]bool{}, map[string]bool{}, map[string]bool{}
	for i, o := range ops {
		ok := i < len(res) && res[i] == model.OK
		switch o.Kind {
		case "delver":
			if ok {
				lastDelver[o.Name] = true
			}
		case "del":
			if ok {
				deleted[o.Name] = true
				lastDelver[o.Name] = false
			}
		case "activate":
			if ok {
				lastActOlder[o.Name] = true
				seen["activate-succeeded"] = true
			}
		case "put":
			if ok {
				if lastDelver[o.Name] {
					seen["delete-version-then-put"] = true
				}
				if deleted[o.Name] {
					seen["delete-then-recreate"] = true
				}
				if lastActOlder[o.Name] {
					seen["activate-then-put"] = true
				}
			}
		}
		if !ok && o.Mutating() {
			seen["failed-mutation"] = true
		}
	}
	for k := range seen {
		classes = append(classes, k)
	}
	sort.Strings(classes)
	nontrivial = seen["delete-version-then-put"] || seen["delete-then-recreate"] || seen["activate-then-put"]
	return
}

// ---------------------------------------------------------------- outages

// Outage makes a state directory unavailable while f runs - it is renamed away, so that creating a
// temporary file in it or replacing a file in it fails - and puts it back afterwards.  held is
// false if the code under test re-created the directory in the meantime and carried on (an
// implementation is free to): then there was no outage to speak of; whatever was written during f is
// in the new directory, files that only the old one had are moved over, and the caller judges the
// call like any other.
func Outage(dir string, f func()) (held bool, err error) {
	away := dir + ".away"
	if err := os.Rename(dir, away); err != nil {
		return false, fmt.Errorf("rename: %w", err)
	}
	f()
	if _, serr := os.Lstat(dir); serr != nil {
		if err := os.Rename(away, dir); err != nil {
			return false, fmt.Errorf("rename back: %w", err)
		}
		return true, nil
	}
	es, _ := os.ReadDir(away)
	for _, e := range es {
		if _, serr := os.Lstat(filepath.Join(dir, e.Name())); serr != nil {
			os.Rename(filepath.Join(away, e.Name()), filepath.Join(dir, e.Name()))
		}
	}
	os.RemoveAll(away)
	return false, nil
}
