module verifharness

go 1.26.8

require (
	github.com/anishathalye/porcupine v1.3.0
	github.com/tailscale/setec v0.0.0
	pgregory.net/rapid v1.3.0
)

replace github.com/tailscale/setec => /repo
