// Package fake holds the test doubles the client-side checks share: a scripted
// secrets service (setec.StoreClient), a recording/failing cache and a
// settable clock.  Every blocking point selects on the request context AND on
// a release channel so the harness can always end a run.
package fake

import (
	"context"
	"errors"
	"fmt"
	"net"
	"os"
	"sync"
	"time"

	"github.com/tailscale/setec/types/api"
)

// Beh is how the service treats one request.
type Beh struct {
	Kind    string `json:"kind"`               // ok | err | hang | notfound | denied
	DelayMs int    `json:"delay_ms,omitempty"` // for ok: answer after this long (plus 500us so instants never tie with whole-ms timers)
}

// Req is one logged request.
type Req struct {
	At      time.Duration
	Op      string // get | cond
	Name    string
	Old     api.SecretVersion
	Outcome string // value:<v> | notchanged | error:<text>
	Served  *api.SecretValue
}

var ErrService = errors.New("service unavailable (injected)")

type Svc struct {
	mu       sync.Mutex
	t0       time.Time
	vals     map[string]*api.SecretValue
	everAct  map[string]map[api.SecretVersion]string // every (version, bytes) ever active per name
	def      map[string]Beh
	script   map[string][]Beh // consumed one per request, then def applies
	log      []Req
	inflight map[string]int
	maxInfl  map[string]int
	release  chan struct{}
	released bool
	gate     chan struct{} // "gate" requests park here until OpenGate
	// OnRequest, if set, runs (without the lock) after request number n (1-based,
	// counted since the last ResetCount) has been logged and before it is answered.
	OnRequest func(n int, name string)
	// OnAnswered, if set, runs (without the lock) right before request number n
	// returns an answer (a value or "not changed"), i.e. strictly between two
	// requests of a sequential client.
	OnAnswered func(n int, name string)
	// OnCtx, if set, runs (without the lock) at the start of request number n with the
	// context the request was made with - so a harness can tell WHOSE context a shared request carries.
	OnCtx func(ctx context.Context, n int, name string)
	// PlainCtxErrors: when a request's context has ended the service reports a plain error that does
	// NOT wrap the context's error (a StoreClient is free to do so; the HTTP client happens to wrap it).
	PlainCtxErrors bool
	count          int
	// MaxRequests bounds the requests of one scenario (default 50000). A client
	// that exceeds it is spinning; further requests park until Release so that
	// virtual time can advance and the harness can report it.
	MaxRequests int
	overrun     bool
}

// Overrun reports whether the request bound was exceeded.
func (s *Svc) Overrun() bool { s.mu.Lock(); defer s.mu.Unlock(); return s.overrun }

func NewSvc() *Svc {
	return &Svc{t0: time.Now(), vals: map[string]*api.SecretValue{}, everAct: map[string]map[api.SecretVersion]string{},
		def: map[string]Beh{}, script: map[string][]Beh{}, inflight: map[string]int{}, maxInfl: map[string]int{}, release: make(chan struct{})}
}

// Set makes (version, value) the active version of name.
func (s *Svc) Set(name string, version uint32, value []byte) {
	s.mu.Lock()
	defer s.mu.Unlock()
	s.vals[name] = &api.SecretValue{Version: api.SecretVersion(version), Value: append([]byte{}, value...)}
	if s.everAct[name] == nil {
		s.everAct[name] = map[api.SecretVersion]string{}
	}
	s.everAct[name][api.SecretVersion(version)] = string(value)
}

func (s *Svc) Remove(name string) { s.mu.Lock(); delete(s.vals, name); s.mu.Unlock() }

func (s *Svc) Active(name string) (uint32, []byte, bool) {
	s.mu.Lock()
	defer s.mu.Unlock()
	v := s.vals[name]
	if v == nil {
		return 0, nil, false
	}
	return uint32(v.Version), v.Value, true
}

// EverActive reports whether (version, value) was ever active for name.
func (s *Svc) EverActive(name string, version uint32, value []byte) bool {
	s.mu.Lock()
	defer s.mu.Unlock()
	b, ok := s.everAct[name][api.SecretVersion(version)]
	return ok && b == string(value)
}

func (s *Svc) SetDefault(name string, b Beh) { s.mu.Lock(); s.def[name] = b; s.mu.Unlock() }
func (s *Svc) SetScript(name string, bs []Beh) {
	s.mu.Lock()
	s.script[name] = append([]Beh{}, bs...)
	s.mu.Unlock()
}
func (s *Svc) ResetCount() { s.mu.Lock(); s.count = 0; s.mu.Unlock() }

// Release ends every hanging request (they fail) and makes later hangs fail fast.
func (s *Svc) Release() {
	s.mu.Lock()
	if !s.released {
		s.released = true
		close(s.release)
	}
	s.mu.Unlock()
}

// OpenGate lets every request parked by a {Kind:"gate"} behaviour proceed (and answer normally).
func (s *Svc) OpenGate() {
	s.mu.Lock()
	if s.gate != nil {
		close(s.gate)
		s.gate = nil
	}
	s.mu.Unlock()
}

// InFlight reports how many requests for name are being served right now.
func (s *Svc) InFlight(name string) int { s.mu.Lock(); defer s.mu.Unlock(); return s.inflight[name] }

func (s *Svc) Log() []Req                  { s.mu.Lock(); defer s.mu.Unlock(); return append([]Req{}, s.log...) }
func (s *Svc) LogLen() int                 { s.mu.Lock(); defer s.mu.Unlock(); return len(s.log) }
func (s *Svc) MaxInflight(name string) int { s.mu.Lock(); defer s.mu.Unlock(); return s.maxInfl[name] }

func (s *Svc) CountFor(name string) int {
	s.mu.Lock()
	defer s.mu.Unlock()
	n := 0
	for _, r := range s.log {
		if r.Name == name {
			n++
		}
	}
	return n
}

func (s *Svc) do(ctx context.Context, op, name string, old api.SecretVersion) (*api.SecretValue, error) {
	s.mu.Lock()
	idx := len(s.log)
	s.log = append(s.log, Req{At: time.Since(s.t0), Op: op, Name: name, Old: old})
	b := s.def[name]
	if sc := s.script[name]; len(sc) > 0 {
		b = sc[0]
		s.script[name] = sc[1:]
	}
	s.inflight[name]++
	if s.inflight[name] > s.maxInfl[name] {
		s.maxInfl[name] = s.inflight[name]
	}
	s.count++
	n := s.count
	hook := s.OnRequest
	ctxHook := s.OnCtx
	max := s.MaxRequests
	if max == 0 {
		max = 50000
	}
	over := len(s.log) > max
	if over {
		s.overrun = true
	}
	s.mu.Unlock()
	if over {
		// park until the harness ends the run, then answer normally so that even
		// a client that ignores its context can finish
		<-s.release
		b = Beh{Kind: "ok"}
		hook = nil
	}
	finish := func(outcome string, sv *api.SecretValue) {
		s.mu.Lock()
		s.inflight[name]--
		s.log[idx].Outcome = outcome
		s.log[idx].Served = sv
		s.mu.Unlock()
	}
	if ctxHook != nil && !over {
		ctxHook(ctx, n, name)
	}
	if hook != nil {
		hook(n, name)
	}
	if err := ctx.Err(); err != nil && !over {
		finish("error:ctx", nil)
		return nil, s.ctxErr(err)
	}
	switch b.Kind {
	case "err":
		finish("error:injected", nil)
		return nil, ErrService
	case "denied":
		finish("error:denied", nil)
		return nil, api.ErrAccessDenied
	case "reqtimeout":
		// the REQUEST timed out (an http.Client with its own Timeout reports this) - the caller's context is alive
		finish("error:injected", nil)
		return nil, fmt.Errorf("fake service: request timed out: %w", context.DeadlineExceeded)
	case "nettimeout":
		// a timeout-class transport error that has nothing to do with any context
		finish("error:injected", nil)
		return nil, &net.OpError{Op: "dial", Net: "tcp", Err: os.ErrDeadlineExceeded}
	case "gate":
		s.mu.Lock()
		if s.gate == nil {
			s.gate = make(chan struct{})
		}
		g := s.gate
		s.mu.Unlock()
		select {
		case <-ctx.Done():
			finish("error:ctx", nil)
			return nil, s.ctxErr(ctx.Err())
		case <-s.release:
			finish("error:released", nil)
			return nil, errors.New("fake service: released by harness")
		case <-g:
		}
	case "hang":
		select {
		case <-ctx.Done():
			finish("error:ctx", nil)
			return nil, s.ctxErr(ctx.Err())
		case <-s.release:
			finish("error:released", nil)
			return nil, errors.New("fake service: released by harness")
		}
	default:
		if b.DelayMs > 0 {
			select {
			case <-ctx.Done():
				finish("error:ctx", nil)
				return nil, s.ctxErr(ctx.Err())
			case <-s.release:
				finish("error:released", nil)
				return nil, errors.New("fake service: released by harness")
			case <-time.After(time.Duration(b.DelayMs)*time.Millisecond + 500*time.Microsecond):
			}
		}
	}
	s.mu.Lock()
	v := s.vals[name]
	s.mu.Unlock()
	if v == nil || b.Kind == "notfound" {
		finish("error:notfound", nil)
		return nil, api.ErrNotFound
	}
	s.mu.Lock()
	answered := s.OnAnswered
	s.mu.Unlock()
	if op == "cond" && old != 0 && v.Version == old {
		finish("notchanged", nil)
		if answered != nil {
			answered(n, name)
		}
		return nil, api.ErrValueNotChanged
	}
	out := &api.SecretValue{Version: v.Version, Value: append([]byte{}, v.Value...)}
	finish(fmt.Sprintf("value:%d", v.Version), out)
	if answered != nil {
		answered(n, name)
	}
	return out, nil
}

func (s *Svc) Get(ctx context.Context, name string) (*api.SecretValue, error) {
	return s.do(ctx, "get", name, 0)
}

func (s *Svc) GetIfChanged(ctx context.Context, name string, old api.SecretVersion) (*api.SecretValue, error) {
	return s.do(ctx, "cond", name, old)
}

// ---------------------------------------------------------------- cache

// Cache is a recording in-memory setec.Cache whose Read/Write can be made to fail.
type Cache struct {
	mu        sync.Mutex
	data      []byte
	Writes    [][]byte
	nRead     int
	nWrite    int
	FailRead  bool
	FailWrite map[int]bool // 1-based write numbers that fail
	// OnWrite, if set, is called at the start of every Write (before anything is stored) with
	// the 1-based number of the call; it may block to model a slow disk.
	OnWrite func(n int)
	failing bool // every Write fails while set (SetFailing)
	// Backing, if set, is a real cache device (e.g. setec.NewFileCache) every successful Write goes
	// through; Data / Read / Writes then report what was READ BACK from it after the write.
	Backing interface {
		Write([]byte) error
		Read() ([]byte, error)
	}
}

// SetFailing makes every later Write fail (true) or work again (false): a cache device that goes away.
func (c *Cache) SetFailing(on bool) { c.mu.Lock(); c.failing = on; c.mu.Unlock() }

func NewCache(initial []byte) *Cache {
	return &Cache{data: append([]byte(nil), initial...), FailWrite: map[int]bool{}}
}

func (c *Cache) Write(b []byte) error {
	c.mu.Lock()
	c.nWrite++
	n, hook := c.nWrite, c.OnWrite
	c.mu.Unlock()
	if hook != nil {
		hook(n)
	}
	c.mu.Lock()
	defer c.mu.Unlock()
	c.nWrite = max(c.nWrite, n)
	if c.FailWrite[n] || c.failing {
		return errors.New("cache write failed (injected)")
	}
	cp := append([]byte{}, b...)
	if c.Backing != nil {
		// the document goes to the real device; what the cache "holds" is what can be read back from it
		if err := c.Backing.Write(b); err != nil {
			return err
		}
		back, err := c.Backing.Read()
		if err != nil {
			return err
		}
		cp = append([]byte{}, back...)
	}
	c.data = cp
	c.Writes = append(c.Writes, cp)
	return nil
}

func (c *Cache) Read() ([]byte, error) {
	c.mu.Lock()
	defer c.mu.Unlock()
	c.nRead++
	if c.FailRead {
		return nil, errors.New("cache read failed (injected)")
	}
	return append([]byte(nil), c.data...), nil
}

func (c *Cache) Data() []byte {
	c.mu.Lock()
	defer c.mu.Unlock()
	return append([]byte(nil), c.data...)
}
func (c *Cache) NumWrites() int     { c.mu.Lock(); defer c.mu.Unlock(); return len(c.Writes) }
func (c *Cache) NumWriteCalls() int { c.mu.Lock(); defer c.mu.Unlock(); return c.nWrite }

// ---------------------------------------------------------------- clock

// Clock is a settable wall clock in whole seconds.
type Clock struct {
	mu     sync.Mutex
	now    int64
	fracMs int64 // constant sub-second part of every reading (a clock is rarely on a whole second)
}

// SetFrac makes every reading fall ms milliseconds after the whole second.
func (c *Clock) SetFrac(ms int) { c.mu.Lock(); c.fracMs = int64(ms); c.mu.Unlock() }

func NewClock(start int64) *Clock { return &Clock{now: start} }
func (c *Clock) Now() time.Time {
	c.mu.Lock()
	defer c.mu.Unlock()
	return time.Unix(c.now, c.fracMs*1000000)
}
func (c *Clock) Unix() int64      { c.mu.Lock(); defer c.mu.Unlock(); return c.now }
func (c *Clock) Advance(s int64)  { c.mu.Lock(); c.now += s; c.mu.Unlock() }

func (s *Svc) ctxErr(err error) error {
	s.mu.Lock()
	plain := s.PlainCtxErrors
	s.mu.Unlock()
	if plain {
		return errors.New("fake service: request abandoned")
	}
	return fmt.Errorf("fake service: %w", err)
}
