package fake

import (
	"bytes"
	"encoding/json"
	"errors"
	"io"
	"net/http"
	"sync"

	"github.com/tailscale/setec/client/setec"
	"github.com/tailscale/setec/types/api"
)

// Wire returns the real setec.Client speaking the service's HTTP protocol to s, so that a store
// configured with it exercises client.go as well (request encoding, status handling, reply decoding):
// 200 + JSON value, 304 not changed, 404 not found, 403 denied, 500 for any other failure of the
// service; a request whose context ends (or that the harness releases) fails in the transport.
//
// Raw, if set, may replace the reply for request number n (1-based over the client's lifetime): it
// returns (status, body, true) to do so - a front end that answers for the service.
func (s *Svc) Wire() setec.Client { return s.WireRaw(nil) }

// WireConns is Wire over a transport that keeps at most maxConns connections to the service (as an
// http.Transport with MaxConnsPerHost does): a connection is busy from the moment a request is sent
// until its reply body has been read to the end or closed; while all are busy the next request waits
// (or fails when its context ends).
func (s *Svc) WireConns(maxConns int) setec.Client {
	return s.wire(nil, make(chan struct{}, maxConns))
}

func (s *Svc) WireRaw(raw func(n int, name string) (int, []byte, bool)) setec.Client {
	return s.wire(raw, nil)
}

// connBody is a reply body that gives its connection back when it has been read to the end or closed.
type connBody struct {
	r    *bytes.Reader
	once sync.Once
	free func()
}

func (b *connBody) Read(p []byte) (int, error) {
	n, err := b.r.Read(p)
	if err == io.EOF {
		b.once.Do(b.free)
	}
	return n, err
}
func (b *connBody) Close() error { b.once.Do(b.free); return nil }

func (s *Svc) wire(raw func(n int, name string) (int, []byte, bool), conns chan struct{}) setec.Client {
	n := 0
	reply := func(r *http.Request, code int, body []byte) *http.Response {
		rb := io.ReadCloser(io.NopCloser(bytes.NewReader(body)))
		if conns != nil {
			rb = &connBody{r: bytes.NewReader(body), free: func() { <-conns }}
		}
		return &http.Response{StatusCode: code, Status: http.StatusText(code), Proto: "HTTP/1.1", ProtoMajor: 1, ProtoMinor: 1,
			Header: http.Header{"Content-Type": []string{"application/json"}}, Body: rb, ContentLength: int64(len(body)), Request: r}
	}
	return setec.Client{Server: "http://setec.fake", DoHTTP: func(r *http.Request) (resp *http.Response, rerr error) {
		if conns != nil {
			select {
			case conns <- struct{}{}:
			case <-r.Context().Done():
				return nil, r.Context().Err()
			case <-s.release:
				return nil, errors.New("fake service: released by harness")
			}
			defer func() {
				if rerr != nil {
					<-conns // a failed round trip has no body to wait for
				}
			}()
		}
		body, err := io.ReadAll(r.Body)
		if err != nil {
			return nil, err
		}
		var req api.GetRequest
		if r.Method != "POST" || r.URL.Path != "/api/get" || r.Header.Get("Content-Type") != "application/json" || r.Header.Get("Sec-X-Tailscale-No-Browsers") != "setec" {
			return reply(r, 400, []byte("bad request\n")), nil
		}
		if err := json.Unmarshal(body, &req); err != nil {
			return reply(r, 400, []byte("bad request body\n")), nil
		}
		s.mu.Lock()
		n++
		k := n
		s.mu.Unlock()
		if raw != nil {
			if code, b, ok := raw(k, req.Name); ok {
				s.mu.Lock()
				s.log = append(s.log, Req{Op: "raw", Name: req.Name, Old: req.Version, Outcome: "raw"})
				s.mu.Unlock()
				return reply(r, code, b), nil
			}
		}
		var sv *api.SecretValue
		switch {
		case req.UpdateIfChanged:
			sv, err = s.GetIfChanged(r.Context(), req.Name, req.Version)
		case req.Version == 0:
			sv, err = s.Get(r.Context(), req.Name)
		default:
			return reply(r, 400, []byte("the fake service serves active versions only\n")), nil
		}
		switch {
		case err == nil:
			b, _ := json.Marshal(sv)
			return reply(r, 200, b), nil
		case errors.Is(err, api.ErrValueNotChanged):
			return reply(r, 304, nil), nil
		case errors.Is(err, api.ErrNotFound):
			return reply(r, 404, []byte("not found\n")), nil
		case errors.Is(err, api.ErrAccessDenied):
			return reply(r, 403, []byte("access denied\n")), nil
		case errors.Is(err, ErrService):
			return reply(r, 500, []byte("internal error\n")), nil
		}
		return nil, err // what a transport reports: the request's context ended, the request timed out, the harness released it
	}}
}
