package model

import (
	"bytes"
	"encoding/base64"
	"encoding/json"
	"fmt"
	"strconv"

	"github.com/tink-crypto/tink-go/v2/aead"
	"github.com/tink-crypto/tink-go/v2/keyset"
	"github.com/tink-crypto/tink-go/v2/tink"
)

// Independent codec of the schema-version-1 database file, written from the
// layout documented in db/kv.go, not by calling setec:
//
//	file    = JSON {"Version":1, "DEK":base64, "DB":base64}
//	DEK     = tink binary *encrypted* keyset, wrapped by the KEK with
//	          associated data "setec DEK v1"
//	DB      = AEAD(DEK).Encrypt(persist JSON, associated data "setec database v1")
//	persist = {"Secrets":{name:{"Versions":{"<n>":base64,...},
//	                            "ActiveVersion":n,"LatestVersion":n}}}

const (
	adDEK = "setec DEK v1"
	adDB  = "setec database v1"
)

type fileWrapper struct {
	Version *uint32 `json:"Version"`
	DEK     *string `json:"DEK"`
	DB      *string `json:"DB"`
}

type filePersist struct {
	Secrets map[string]*fileSecret `json:"Secrets"`
}

type fileSecret struct {
	Versions      map[string]string `json:"Versions"`
	ActiveVersion uint32            `json:"ActiveVersion"`
	LatestVersion uint32            `json:"LatestVersion"`
}

// DecodeDBFile decodes a database file into the model representation
// (including the LatestVersion counters).
func DecodeDBFile(data []byte, kek tink.AEAD) (KV, error) {
	var w fileWrapper
	dec := json.NewDecoder(bytes.NewReader(data))
	// fields this codec does not know are ignored: the properties fix the documented ones only
	if err := dec.Decode(&w); err != nil {
		return nil, fmt.Errorf("wrapper: %w", err)
	}
	if w.Version == nil || w.DEK == nil || w.DB == nil {
		return nil, fmt.Errorf("wrapper lacks one of Version/DEK/DB")
	}
	if *w.Version != 1 {
		return nil, fmt.Errorf("schema version %d", *w.Version)
	}
	dekRaw, err := base64.StdEncoding.DecodeString(*w.DEK)
	if err != nil {
		return nil, fmt.Errorf("DEK base64: %w", err)
	}
	dbRaw, err := base64.StdEncoding.DecodeString(*w.DB)
	if err != nil {
		return nil, fmt.Errorf("DB base64: %w", err)
	}
	hd, err := keyset.ReadWithAssociatedData(keyset.NewBinaryReader(bytes.NewReader(dekRaw)), kek, []byte(adDEK))
	if err != nil {
		return nil, fmt.Errorf("unwrapping DEK: %w", err)
	}
	c, err := aead.New(hd)
	if err != nil {
		return nil, err
	}
	clear, err := c.Decrypt(dbRaw, []byte(adDB))
	if err != nil {
		return nil, fmt.Errorf("decrypting DB: %w", err)
	}
	var p filePersist
	dec = json.NewDecoder(bytes.NewReader(clear))
	// fields this codec does not know are ignored: the properties fix the documented ones only
	if err := dec.Decode(&p); err != nil {
		return nil, fmt.Errorf("persist JSON %q: %w", clear, err)
	}
	out := KV{}
	for name, s := range p.Secrets {
		if s == nil {
			return nil, fmt.Errorf("secret %q is null", name)
		}
		ms := &Sec{Vers: map[uint32]string{}, Active: s.ActiveVersion, Latest: s.LatestVersion}
		for k, v := range s.Versions {
			n, err := strconv.ParseUint(k, 10, 32)
			if err != nil {
				return nil, fmt.Errorf("version key %q: %w", k, err)
			}
			b, err := base64.StdEncoding.DecodeString(v)
			if err != nil {
				return nil, fmt.Errorf("value of %q/%s: %w", name, k, err)
			}
			ms.Vers[uint32(n)] = string(b)
		}
		out[name] = ms
	}
	return out, nil
}

// PlaintextOfDBFile returns the decrypted persist JSON (for scans).
func EncodeDBFile(m KV, kek tink.AEAD) ([]byte, error) {
	hd, err := keyset.NewHandle(aead.XChaCha20Poly1305KeyTemplate())
	if err != nil {
		return nil, err
	}
	c, err := aead.New(hd)
	if err != nil {
		return nil, err
	}
	var wrapped bytes.Buffer
	if err := hd.WriteWithAssociatedData(keyset.NewBinaryWriter(&wrapped), kek, []byte(adDEK)); err != nil {
		return nil, err
	}
	p := filePersist{Secrets: map[string]*fileSecret{}}
	for name, s := range m {
		fs := &fileSecret{Versions: map[string]string{}, ActiveVersion: s.Active, LatestVersion: s.Latest}
		for v, b := range s.Vers {
			fs.Versions[strconv.FormatUint(uint64(v), 10)] = base64.StdEncoding.EncodeToString([]byte(b))
		}
		p.Secrets[name] = fs
	}
	clear, err := json.Marshal(p)
	if err != nil {
		return nil, err
	}
	enc, err := c.Encrypt(clear, []byte(adDB))
	if err != nil {
		return nil, err
	}
	one := uint32(1)
	dek := base64.StdEncoding.EncodeToString(wrapped.Bytes())
	dbs := base64.StdEncoding.EncodeToString(enc)
	return json.Marshal(fileWrapper{Version: &one, DEK: &dek, DB: &dbs})
}
