package model

// CLI whitespace policy of `setec put`, re-implemented from the property text
// with its own White_Space table and its own UTF-8 validity test.

// whiteSpace is the Unicode White_Space property (Unicode 15, PropList.txt).
var whiteSpace = [][2]rune{
	{0x0009, 0x000D}, {0x0020, 0x0020}, {0x0085, 0x0085}, {0x00A0, 0x00A0}, {0x1680, 0x1680},
	{0x2000, 0x200A}, {0x2028, 0x2029}, {0x202F, 0x202F}, {0x205F, 0x205F}, {0x3000, 0x3000},
}

func isWhiteSpace(r rune) bool {
	for _, p := range whiteSpace {
		if r >= p[0] && r <= p[1] {
			return true
		}
	}
	return false
}

// decodeRune decodes one well-formed UTF-8 sequence (RFC 3629: no overlongs,
// no surrogates, at most U+10FFFF); ok=false if b does not start with one.
func decodeRune(b []byte) (r rune, size int, ok bool) {
	if len(b) == 0 {
		return 0, 0, false
	}
	c := b[0]
	switch {
	case c < 0x80:
		return rune(c), 1, true
	case c >= 0xC2 && c <= 0xDF:
		if len(b) >= 2 && b[1]&0xC0 == 0x80 {
			return rune(c&0x1F)<<6 | rune(b[1]&0x3F), 2, true
		}
	case c >= 0xE0 && c <= 0xEF:
		if len(b) >= 3 && b[1]&0xC0 == 0x80 && b[2]&0xC0 == 0x80 {
			r = rune(c&0x0F)<<12 | rune(b[1]&0x3F)<<6 | rune(b[2]&0x3F)
			if r >= 0x800 && !(r >= 0xD800 && r <= 0xDFFF) {
				return r, 3, true
			}
		}
	case c >= 0xF0 && c <= 0xF4:
		if len(b) >= 4 && b[1]&0xC0 == 0x80 && b[2]&0xC0 == 0x80 && b[3]&0xC0 == 0x80 {
			r = rune(c&0x07)<<18 | rune(b[1]&0x3F)<<12 | rune(b[2]&0x3F)<<6 | rune(b[3]&0x3F)
			if r >= 0x10000 && r <= 0x10FFFF {
				return r, 4, true
			}
		}
	}
	return 0, 0, false
}

// ValidUTF8 reports whether b is well-formed UTF-8.
func ValidUTF8(b []byte) bool {
	for len(b) > 0 {
		_, n, ok := decodeRune(b)
		if !ok {
			return false
		}
		b = b[n:]
	}
	return true
}

// TrimWhiteSpace removes leading and trailing White_Space code points of valid UTF-8.
func TrimWhiteSpace(b []byte) []byte {
	for len(b) > 0 {
		r, n, ok := decodeRune(b)
		if !ok || !isWhiteSpace(r) {
			break
		}
		b = b[n:]
	}
	for len(b) > 0 {
		// find the start of the last rune
		i := len(b) - 1
		for i > 0 && b[i]&0xC0 == 0x80 {
			i--
		}
		r, n, ok := decodeRune(b[i:])
		if !ok || i+n != len(b) || !isWhiteSpace(r) {
			break
		}
		b = b[:i]
	}
	return b
}

// PutPolicy predicts what `setec put` does with input read from a file or
// pipe: sent=false means the command must refuse without contacting the server.
func PutPolicy(input []byte, verbatim, trimSpace, emptyOK bool) (sent bool, value []byte) {
	value = input
	if ValidUTF8(input) {
		trimmed := TrimWhiteSpace(input)
		if len(trimmed) != len(input) {
			switch {
			case verbatim:
			case trimSpace:
				value = trimmed
			default:
				return false, nil
			}
		}
	}
	if len(value) == 0 && !emptyOK {
		return false, nil
	}
	return true, value
}
