// Package model holds the reference models (oracles) used by the checks.
// Nothing in here calls into setec's implementation of the thing it models.
package model

// GlobMatch reports whether pattern matches name where '*' in pattern stands
// for zero or more arbitrary bytes and every other byte stands for itself.
// It is the textbook iterative two-pointer matcher with backtracking to the
// last star; for valid UTF-8 inputs byte-wise matching equals rune-wise
// matching because '*' is a single-byte rune and literal pieces are whole runes.
func GlobMatch(pattern, name string) bool {
	p, n := 0, 0
	star, mark := -1, 0
	for n < len(name) {
		switch {
		case p < len(pattern) && pattern[p] == '*':
			star, mark = p, n
			p++
		case p < len(pattern) && pattern[p] == name[n]:
			p++
			n++
		case star >= 0:
			mark++
			n = mark
			p = star + 1
		default:
			return false
		}
	}
	for p < len(pattern) && pattern[p] == '*' {
		p++
	}
	return p == len(pattern)
}
