package model

import (
	"bytes"
	"encoding/base64"
	"encoding/json"
	"fmt"
	"sort"
	"strconv"
)

// Independent strict codec of the cache / secrets-file document written by
// the Store (client/setec/cache.go documents the shape):
//
//	{ "<name>": { "secret": {"Value": <base64|null>, "Version": <n>}, "lastAccess": "<unix seconds>" }, ... }

type CacheEntry struct {
	Version    uint32
	Value      []byte
	LastAccess int64
}

type CacheDoc map[string]CacheEntry

// DecodeCacheStrict accepts the documented shape: every documented field present with the
// documented type, none of them twice, no null entries, string-encoded lastAccess, nothing after
// the document. Fields the documentation does not mention are tolerated and ignored.
func DecodeCacheStrict(data []byte) (CacheDoc, error) {
	var top map[string]json.RawMessage
	if err := strictUnmarshal(data, &top); err != nil {
		return nil, fmt.Errorf("top level: %w", err)
	}
	if top == nil {
		return nil, fmt.Errorf("top level is null")
	}
	out := CacheDoc{}
	for name, raw := range top {
		if name == "" {
			return nil, fmt.Errorf("empty secret name")
		}
		var ent struct {
			Secret     *json.RawMessage `json:"secret"`
			LastAccess *json.RawMessage `json:"lastAccess"`
		}
		if err := exactFields(raw, &ent, "secret", "lastAccess"); err != nil {
			return nil, fmt.Errorf("entry %q: %w", name, err)
		}
		if ent.Secret == nil || ent.LastAccess == nil {
			return nil, fmt.Errorf("entry %q lacks secret or lastAccess", name)
		}
		var sec struct {
			// (not a pointer: a JSON null - how Go renders a nil byte slice, i.e. an empty value - must
			// arrive here as the text "null", not as an absent field)
			Value   json.RawMessage  `json:"Value"`
			Version *json.RawMessage `json:"Version"`
		}
		if err := exactFields(*ent.Secret, &sec, "Value", "Version"); err != nil {
			return nil, fmt.Errorf("entry %q secret: %w", name, err)
		}
		if len(sec.Value) == 0 || sec.Version == nil {
			return nil, fmt.Errorf("entry %q secret lacks Value or Version", name)
		}
		var e CacheEntry
		if !bytes.Equal(sec.Value, []byte("null")) {
			var s string
			if err := json.Unmarshal(sec.Value, &s); err != nil {
				return nil, fmt.Errorf("entry %q Value: %w", name, err)
			}
			b, err := base64.StdEncoding.DecodeString(s)
			if err != nil {
				return nil, fmt.Errorf("entry %q Value: %w", name, err)
			}
			e.Value = b
		}
		v, err := strconv.ParseUint(string(*sec.Version), 10, 32)
		if err != nil {
			return nil, fmt.Errorf("entry %q Version %s: %w", name, *sec.Version, err)
		}
		e.Version = uint32(v)
		var la string
		if err := json.Unmarshal(*ent.LastAccess, &la); err != nil {
			return nil, fmt.Errorf("entry %q lastAccess %s: %w", name, *ent.LastAccess, err)
		}
		e.LastAccess, err = strconv.ParseInt(la, 10, 64)
		if err != nil {
			return nil, fmt.Errorf("entry %q lastAccess: %w", name, err)
		}
		out[name] = e
	}
	return out, nil
}

func strictUnmarshal(data []byte, v any) error {
	dec := json.NewDecoder(bytes.NewReader(data))
	if err := dec.Decode(v); err != nil {
		return err
	}
	if dec.More() {
		return fmt.Errorf("trailing data")
	}
	var extra json.RawMessage
	if err := dec.Decode(&extra); err == nil {
		return fmt.Errorf("trailing data")
	}
	return nil
}

// exactFields decodes raw (which must be a JSON object) into v and demands
// that each of the allowed keys occurs at most once (other keys are skipped).
func exactFields(raw json.RawMessage, v any, allowed ...string) error {
	dec := json.NewDecoder(bytes.NewReader(raw))
	tok, err := dec.Token()
	if err != nil {
		return err
	}
	if d, ok := tok.(json.Delim); !ok || d != '{' {
		return fmt.Errorf("not an object")
	}
	seen := map[string]bool{}
	for dec.More() {
		kt, err := dec.Token()
		if err != nil {
			return err
		}
		k := kt.(string)
		ok := false
		for _, a := range allowed {
			if a == k {
				ok = true
			}
		}
		if !ok {
			// a field this codec does not know: the properties do not forbid additional fields in
			// documents the store writes (its own reader and the file-backed client ignore them)
			var skip json.RawMessage
			if err := dec.Decode(&skip); err != nil {
				return err
			}
			continue
		}
		if seen[k] {
			return fmt.Errorf("duplicate field %q", k)
		}
		seen[k] = true
		var skip json.RawMessage
		if err := dec.Decode(&skip); err != nil {
			return err
		}
	}
	return json.Unmarshal(raw, v)
}

// EncodeCache renders a document in the documented shape (keys sorted).
func EncodeCache(doc CacheDoc) []byte {
	names := make([]string, 0, len(doc))
	for n := range doc {
		names = append(names, n)
	}
	sort.Strings(names)
	var buf bytes.Buffer
	buf.WriteByte('{')
	for i, n := range names {
		e := doc[n]
		if i > 0 {
			buf.WriteByte(',')
		}
		k, _ := json.Marshal(n)
		buf.Write(k)
		fmt.Fprintf(&buf, `:{"secret":{"Value":%q,"Version":%d},"lastAccess":"%d"}`, base64.StdEncoding.EncodeToString(e.Value), e.Version, e.LastAccess)
	}
	buf.WriteByte('}')
	return buf.Bytes()
}
