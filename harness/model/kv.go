package model

import (
	"fmt"
	"sort"
	"strings"
)

// Class is the outcome class of an operation.
type Class int

const (
	OK Class = iota
	NotFound
	Denied
	NotChanged
	Other // any other failure
)

func (c Class) String() string {
	return [...]string{"ok", "not-found", "denied", "not-changed", "other-error"}[c]
}

// Sec is one secret in the sequential specification.
type Sec struct {
	Vers   map[uint32]string
	Active uint32
	Latest uint32 // most recently assigned version number
}

// KV is the sequential specification of the versioned store: a plain map.
type KV map[string]*Sec

const ReservedPrefix = "_internal/"

func reserved(name string) bool { return strings.HasPrefix(name, ReservedPrefix) }

func (m KV) Clone() KV {
	o := KV{}
	for k, s := range m {
		ns := &Sec{Vers: make(map[uint32]string, len(s.Vers)), Active: s.Active, Latest: s.Latest}
		for v, b := range s.Vers {
			ns.Vers[v] = b
		}
		o[k] = ns
	}
	return o
}

// Put: first put creates version 1 active; later puts allocate Latest+1 unless
// the bytes equal those of version Latest and that version still exists.
func (m KV) Put(name, val string) (uint32, Class) {
	if name == "" || reserved(name) {
		return 0, Other
	}
	s := m[name]
	if s == nil {
		m[name] = &Sec{Vers: map[uint32]string{1: val}, Active: 1, Latest: 1}
		return 1, OK
	}
	if cur, ok := s.Vers[s.Latest]; ok && cur == val {
		return s.Latest, OK
	}
	s.Latest++
	s.Vers[s.Latest] = val
	return s.Latest, OK
}

func (m KV) Activate(name string, v uint32) Class {
	if name == "" || reserved(name) || v == 0 {
		return Other
	}
	s := m[name]
	if s == nil {
		return NotFound
	}
	if _, ok := s.Vers[v]; !ok {
		return NotFound
	}
	s.Active = v
	return OK
}

func (m KV) DeleteVersion(name string, v uint32) Class {
	if reserved(name) || v == 0 {
		return Other
	}
	s := m[name]
	if s == nil {
		return NotFound
	}
	if v == s.Active {
		return Other
	}
	if _, ok := s.Vers[v]; !ok {
		return NotFound
	}
	delete(s.Vers, v)
	return OK
}

func (m KV) Delete(name string) Class {
	if reserved(name) {
		return Other
	}
	delete(m, name)
	return OK
}

func (m KV) Get(name string) (uint32, string, Class) {
	s := m[name]
	if s == nil {
		return 0, "", NotFound
	}
	return s.Active, s.Vers[s.Active], OK
}

func (m KV) GetVersion(name string, v uint32) (string, Class) {
	s := m[name]
	if s == nil {
		return "", NotFound
	}
	b, ok := s.Vers[v]
	if !ok {
		return "", NotFound
	}
	return b, OK
}

// InfoM is the metadata of one secret.
type InfoM struct {
	Name     string   `json:"name"`
	Versions []uint32 `json:"versions"`
	Active   uint32   `json:"active"`
}

func (m KV) Info(name string) (InfoM, Class) {
	s := m[name]
	if s == nil {
		return InfoM{}, NotFound
	}
	in := InfoM{Name: name, Active: s.Active}
	for v := range s.Vers {
		in.Versions = append(in.Versions, v)
	}
	sort.Slice(in.Versions, func(i, j int) bool { return in.Versions[i] < in.Versions[j] })
	return in, OK
}

func (m KV) Names() []string {
	ns := make([]string, 0, len(m))
	for k := range m {
		ns = append(ns, k)
	}
	sort.Strings(ns)
	return ns
}

// String renders the state canonically; withLatest includes the counters.
func (m KV) Render(withLatest bool) string {
	var sb strings.Builder
	for _, k := range m.Names() {
		s := m[k]
		vs := make([]int, 0, len(s.Vers))
		for v := range s.Vers {
			vs = append(vs, int(v))
		}
		sort.Ints(vs)
		if withLatest {
			fmt.Fprintf(&sb, "%q[a%d l%d:", k, s.Active, s.Latest)
		} else {
			fmt.Fprintf(&sb, "%q[a%d:", k, s.Active)
		}
		for _, v := range vs {
			fmt.Fprintf(&sb, " %d=%q", v, s.Vers[uint32(v)])
		}
		sb.WriteString("] ")
	}
	return sb.String()
}

func (m KV) String() string { return m.Render(true) }

// Rule is one ACL rule of the model.
type Rule struct {
	Action []string `json:"action"`
	Secret []string `json:"secret"`
}

// Allow: one single rule must both list the action and have a matching pattern.
func Allow(rules []Rule, action, name string) bool {
	for _, r := range rules {
		act := false
		for _, a := range r.Action {
			if a == action {
				act = true
				break
			}
		}
		if !act {
			continue
		}
		for _, p := range r.Secret {
			if GlobMatch(p, name) {
				return true
			}
		}
	}
	return false
}

var AllActions = []string{"get", "info", "put", "activate", "delete"}

// SuperRules grants everything.
func SuperRules() []Rule { return []Rule{{Action: AllActions, Secret: []string{"*"}}} }
