package h

import (
	"fmt"
	"os"
	"regexp"
	"runtime"
	"strings"
	"sync/atomic"
	"time"
)

// SpinWatch reports a goroutine that stays runnable inside fn (matched by a
// substring of its stack) without the scenario making progress.  It is the
// gross real-time observation of "does not spin": the named function must be
// seen on-CPU/runnable in every one of `samples` consecutive samples spread
// over at least `over` of real time while Progress() has not been called.
// When it fires, the current scenario is written as a replay file, the
// violation line is printed and the process exits with status 1 (a spinning
// goroutine inside a synctest bubble cannot be stopped any other way).
type SpinWatch struct {
	prop, sub string
	fnMatch   string
	scenario  atomic.Value // any
	progress  atomic.Int64
	stop      chan struct{}
}

var runnableRE = regexp.MustCompile(`^goroutine \d+ \[(runnable|running)`)

func NewSpinWatch(prop, sub, fnMatch string, samples int, over time.Duration) *SpinWatch {
	w := &SpinWatch{prop: prop, sub: sub, fnMatch: fnMatch, stop: make(chan struct{})}
	go func() {
		hits := 0
		var first time.Time
		last := w.progress.Load()
		buf := make([]byte, 1<<20)
		for {
			select {
			case <-w.stop:
				return
			case <-time.After(over / time.Duration(samples)):
			}
			if p := w.progress.Load(); p != last {
				last, hits = p, 0
				continue
			}
			n := runtime.Stack(buf, true)
			spinning := ""
			for _, g := range strings.Split(string(buf[:n]), "\n\n") {
				if runnableRE.MatchString(g) && strings.Contains(g, w.fnMatch) {
					spinning = g
					break
				}
			}
			if spinning == "" {
				hits = 0
				continue
			}
			if hits == 0 {
				first = time.Now()
			}
			hits++
			if hits >= samples && time.Since(first) >= over {
				sc := w.scenario.Load()
				if len(spinning) > 1500 {
					spinning = spinning[:1500]
				}
				v := &Violation{Clause: "sleeps-while-nothing-changes", Sig: "sleeps-while-nothing-changes",
					Detail: fmt.Sprintf("a goroutine in %s was runnable in %d consecutive samples over %v of real time while the scenario made no progress (virtual time cannot advance): it spins. Stack: %s", w.fnMatch, hits, time.Since(first).Round(time.Millisecond), strings.ReplaceAll(spinning, "\n", " | "))}
				p := WriteFailure(w.prop, w.sub, v, sc)
				Report(w.prop, w.sub, v, p)
				os.Stdout.Sync()
				os.Exit(1)
			}
		}
	}()
	return w
}

// Begin names the scenario now running; Progress must be called whenever it advances.
func (w *SpinWatch) Begin(scenario any) { w.scenario.Store(scenario); w.progress.Add(1) }
func (w *SpinWatch) Progress()          { w.progress.Add(1) }
func (w *SpinWatch) Stop()              { close(w.stop) }

// StuckWatch reports a tracked call that does not return: a reader brackets every call it wants
// watched with Enter(slot) / Leave(slot); if any slot stays entered for longer than limit of real
// time, the current scenario is written as a replay file, the violation line is printed and the
// process exits with status 1 (a goroutine blocked for good - e.g. on a lock that was never released -
// cannot be stopped, and the driver would otherwise only see a timeout).
type StuckWatch struct {
	prop, sub, clause string
	scenario          atomic.Value
	slots             [64]atomic.Int64 // unix nanoseconds of entry, 0 = not inside a call
	what              atomic.Value     // string: what the watched calls are
}

func NewStuckWatch(prop, sub, clause, what string, limit time.Duration) *StuckWatch {
	w := &StuckWatch{prop: prop, sub: sub, clause: clause}
	w.what.Store(what)
	go func() {
		for {
			time.Sleep(limit / 20)
			now := time.Now().UnixNano()
			for i := range w.slots {
				t := w.slots[i].Load()
				if t != 0 && time.Duration(now-t) > limit {
					v := &Violation{Clause: w.clause, Sig: w.clause,
						Detail: fmt.Sprintf("%s has not returned after %v of real time (watch slot %d): it is blocked for good", w.what.Load(), time.Duration(now-t).Round(time.Millisecond), i)}
					p := WriteFailure(w.prop, w.sub, v, w.scenario.Load())
					Report(w.prop, w.sub, v, p)
					os.Stdout.Sync()
					os.Exit(1)
				}
			}
		}
	}()
	return w
}

func (w *StuckWatch) Begin(scenario any) {
	w.scenario.Store(scenario)
	for i := range w.slots {
		w.slots[i].Store(0)
	}
}
func (w *StuckWatch) Enter(slot int) { w.slots[slot%64].Store(time.Now().UnixNano()) }
func (w *StuckWatch) Leave(slot int) { w.slots[slot%64].Store(0) }
