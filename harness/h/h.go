// Package h is the common machinery of the checks: campaign runner on top of
// rapid (generation + shrinking), statistics for the evidence files, replay
// files for failures and a registry so that a replay file can be fed straight
// to the runner that produced it, bypassing the generator.
package h

import (
	"crypto/sha256"
	"encoding/hex"
	"encoding/json"
	"flag"
	"fmt"
	"os"
	"path/filepath"
	"sort"
	"strconv"
	"strings"
	"sync"
	"testing"
	"time"

	"pgregory.net/rapid"
)

// Violation describes one way a scenario contradicted its oracle.
type Violation struct {
	Clause string `json:"clause"` // which sentence of the property
	Detail string `json:"detail"` // human readable: step, got, want
	Sig    string `json:"sig"`    // structural signature, used for known findings
}

func V(clause, format string, args ...any) *Violation {
	return &Violation{Clause: clause, Detail: fmt.Sprintf(format, args...), Sig: clause}
}

// Info is the classification of one executed case.
type Info struct {
	NonTrivial bool
	Classes    []string
}

func (i *Info) Class(c string) { i.Classes = append(i.Classes, c) }

// ---------------------------------------------------------------- environment

func Tier() string {
	if t := os.Getenv("VERIF_TIER"); t == "thorough" {
		return "thorough"
	}
	return "quick"
}

func Thorough() bool { return Tier() == "thorough" }

// Seed is VERIF_SEED (default 1).
func Seed() uint64 {
	if s, err := strconv.ParseUint(os.Getenv("VERIF_SEED"), 10, 64); err == nil {
		return s
	}
	return 1
}

// Shard reports (index, count) of this process among the processes that share
// one campaign in the thorough tier.
func Shard() (int, int) {
	parts := strings.Split(os.Getenv("VERIF_SHARD"), "/")
	if len(parts) == 2 {
		i, e1 := strconv.Atoi(parts[0])
		n, e2 := strconv.Atoi(parts[1])
		if e1 == nil && e2 == nil && n > 0 && i >= 0 && i < n {
			return i, n
		}
	}
	return 0, 1
}

// FirstShardOnly skips fixed (non-generated) sub-campaigns in all but the
// first process of a sharded run, so that their counts are not multiplied.
func FirstShardOnly(t *testing.T) {
	if sh, _ := Shard(); sh != 0 {
		t.Skip("fixed sub-campaign: runs in shard 0 only")
	}
}

// Scale is a multiplier for case counts set by the driver (VERIF_SCALE, a
// float; default 1). Used for self-tests of the machinery only.
func scale() float64 {
	if f, err := strconv.ParseFloat(os.Getenv("VERIF_SCALE"), 64); err == nil && f > 0 {
		return f
	}
	return 1
}

// N picks the number of cases for this process: quick or thorough/shards.
func N(quick, thorough int) int {
	n := quick
	if Thorough() {
		_, k := Shard()
		n = (thorough + k - 1) / k
	}
	n = int(float64(n) * scale())
	if n < 1 {
		n = 1
	}
	return n
}

// RapidSeed derives the PRNG value for sub-campaign idx; never 0 (0 = random).
func RapidSeed(sub string) uint64 {
	sh, _ := Shard()
	hsh := sha256.Sum256([]byte(sub))
	x := Seed()*2654435761 + uint64(sh)*40503 + uint64(hsh[0])<<8 + uint64(hsh[1])
	return x | 1
}

func outDir(env, def string) string {
	d := os.Getenv(env)
	if d == "" {
		d = def
	}
	os.MkdirAll(d, 0o755)
	return d
}

// Scratch returns a fresh directory under $VERIF_SCRATCH for one test; it is
// removed when the test ends.
func Scratch(t testing.TB) string {
	base := os.Getenv("VERIF_FAST_SCRATCH")
	if base == "" {
		base = os.Getenv("VERIF_SCRATCH")
	}
	if base == "" {
		base = "/verif/.scratch"
	}
	os.MkdirAll(base, 0o755)
	d, err := os.MkdirTemp(base, "t-")
	if err != nil {
		t.Fatalf("scratch: %v", err)
	}
	t.Cleanup(func() { os.RemoveAll(d) })
	return d
}

// ---------------------------------------------------------------- statistics

// maxHashes bounds the per-process set of distinct non-trivial case hashes.
const maxHashes = 400000

type Rec struct {
	mu          sync.Mutex
	ntOverflow  int
	Prop, Sub   string
	evaluations int
	classes     map[string]int
	nt          map[string]struct{}
	samples     []any
	ntSamples   int
	extra       map[string]any
	completed   bool
	exhaustive  bool
	rule        string
	start       time.Time
}

func NewRec(prop, sub, rule string) *Rec {
	return &Rec{Prop: prop, Sub: sub, rule: rule, classes: map[string]int{}, nt: map[string]struct{}{}, extra: map[string]any{}, start: time.Now()}
}

func hashOf(key any) string {
	var b []byte
	switch k := key.(type) {
	case string:
		b = []byte(k)
	case []byte:
		b = k
	default:
		b, _ = json.Marshal(k)
	}
	s := sha256.Sum256(b)
	return hex.EncodeToString(s[:8])
}

// Case records one executed case. key identifies the case for the distinct
// count (it is hashed); sample, if non-nil, may be kept as an example.
func (r *Rec) Case(key any, info Info, sample any) {
	r.mu.Lock()
	defer r.mu.Unlock()
	r.evaluations++
	for _, c := range info.Classes {
		r.classes[c]++
	}
	if info.NonTrivial {
		if len(r.nt) >= maxHashes {
			// beyond the cap non-trivial cases are counted but no longer de-duplicated; the
			// driver then reports only the de-duplicated part (a lower bound)
			r.ntOverflow++
			return
		}
		hk := hashOf(key)
		if _, ok := r.nt[hk]; !ok {
			r.nt[hk] = struct{}{}
			if sample != nil && r.ntSamples < 4 {
				r.samples = append(r.samples, sample)
				r.ntSamples++
			}
		}
	} else if sample != nil && len(r.samples) == 0 {
		r.samples = append(r.samples, sample)
	}
}

// Count adds n evaluations of one class without distinct bookkeeping.
func (r *Rec) Count(class string, n int) {
	r.mu.Lock()
	defer r.mu.Unlock()
	r.classes[class] += n
}

func (r *Rec) AddEvaluations(n int) { r.mu.Lock(); r.evaluations += n; r.mu.Unlock() }

// AddNonTrivial records a distinct non-trivial case by key only.
func (r *Rec) AddNonTrivial(key any) {
	r.mu.Lock()
	r.nt[hashOf(key)] = struct{}{}
	r.mu.Unlock()
}

func (r *Rec) AddSample(s any) {
	r.mu.Lock()
	if len(r.samples) < 6 {
		r.samples = append(r.samples, s)
	}
	r.mu.Unlock()
}

func (r *Rec) Set(k string, v any) { r.mu.Lock(); r.extra[k] = v; r.mu.Unlock() }
func (r *Rec) Exhaustive()         { r.mu.Lock(); r.exhaustive = true; r.mu.Unlock() }
func (r *Rec) Completed()          { r.mu.Lock(); r.completed = true; r.mu.Unlock() }

// Flush writes the record to $VERIF_STATS_DIR.
func (r *Rec) Flush() {
	r.mu.Lock()
	defer r.mu.Unlock()
	dir := outDir("VERIF_STATS_DIR", "/verif/.scratch/stats")
	hs := make([]string, 0, len(r.nt))
	for k := range r.nt {
		hs = append(hs, k)
	}
	sort.Strings(hs)
	sh, _ := Shard()
	doc := map[string]any{
		"property": r.Prop, "sub": r.Sub, "rule": r.rule, "evaluations": r.evaluations,
		"classes": r.classes, "nontrivial_hashes": hs, "samples": r.samples, "extra": r.extra,
		"completed": r.completed, "exhaustive": r.exhaustive, "wall_s": time.Since(r.start).Seconds(),
		"shard": sh, "seed": Seed(), "tier": Tier(), "nontrivial_not_deduplicated": r.ntOverflow,
	}
	b, _ := json.Marshal(doc)
	name := fmt.Sprintf("%s.%s.%d.%d.json", r.Prop, r.Sub, sh, os.Getpid())
	os.WriteFile(filepath.Join(dir, name), b, 0o644)
}

// ---------------------------------------------------------------- replay files

type ReplayFile struct {
	Property  string          `json:"property"`
	Sub       string          `json:"sub"`
	Violation *Violation      `json:"violation,omitempty"`
	Note      string          `json:"note,omitempty"`
	Scenario  json.RawMessage `json:"scenario"`
}

var (
	regMu    sync.Mutex
	registry = map[string]func(t *testing.T, raw json.RawMessage) *Violation{}
)

func regKey(prop, sub string) string { return prop + "/" + sub }

// RegisterReplay makes sub-campaign (prop, sub) replayable.
func RegisterReplay(prop, sub string, fn func(t *testing.T, raw json.RawMessage) *Violation) {
	regMu.Lock()
	registry[regKey(prop, sub)] = fn
	regMu.Unlock()
}

// WriteFailure stores a failing scenario and returns the path.
func WriteFailure(prop, sub string, v *Violation, scenario any) string {
	raw, err := json.Marshal(scenario)
	if err != nil {
		raw, _ = json.Marshal(fmt.Sprintf("%+v", scenario))
	}
	rf := ReplayFile{Property: prop, Sub: sub, Violation: v, Scenario: raw}
	b, _ := json.MarshalIndent(rf, "", " ")
	dir := filepath.Join(outDir("VERIF_FAIL_DIR", "/verif/replays"), prop)
	os.MkdirAll(dir, 0o755)
	p := filepath.Join(dir, fmt.Sprintf("fail-%s-%s.json", sub, hashOf(raw)))
	os.WriteFile(p, b, 0o644)
	return p
}

// Report prints the line the driver looks for.
func Report(prop, sub string, v *Violation, path string) {
	d := strings.ReplaceAll(v.Detail, "\n", " | ")
	if len(d) > 600 {
		d = d[:600] + "..."
	}
	fmt.Printf("\nVERIF-VIOLATION property=%s sub=%s sig=%s replay=%s clause=%q detail=%q\n", prop, sub, sanitize(v.Sig), path, v.Clause, d)
}

func sanitize(s string) string {
	s = strings.Map(func(r rune) rune {
		if r == ' ' || r == '\n' || r == '\t' {
			return '_'
		}
		return r
	}, s)
	if s == "" {
		s = "unspecified"
	}
	return s
}

// Replay runs the file named by $VERIF_REPLAY (or every committed replay file
// of the properties served by this test binary when $VERIF_REPLAY_DIR is set).
func Replay(t *testing.T, props ...string) {
	var files []string
	if p := os.Getenv("VERIF_REPLAY"); p != "" {
		files = append(files, p)
	} else if d := os.Getenv("VERIF_REPLAY_DIR"); d != "" {
		for _, prop := range props {
			m, _ := filepath.Glob(filepath.Join(d, prop, "*.json"))
			sort.Strings(m)
			files = append(files, m...)
		}
	}
	want := map[string]bool{}
	for _, p := range props {
		want[p] = true
	}
	n := 0
	for _, f := range files {
		b, err := os.ReadFile(f)
		if err != nil {
			t.Fatalf("replay %s: %v", f, err)
		}
		var rf ReplayFile
		if err := json.Unmarshal(b, &rf); err != nil {
			t.Fatalf("replay %s: %v", f, err)
		}
		if !want[rf.Property] {
			continue
		}
		if only := os.Getenv("VERIF_REPLAY_PROP"); only != "" && only != rf.Property {
			continue
		}
		regMu.Lock()
		fn := registry[regKey(rf.Property, rf.Sub)]
		regMu.Unlock()
		if fn == nil {
			continue // belongs to another test binary serving the same property
		}
		n++
		v := safely(func() *Violation { return fn(t, rf.Scenario) })
		if v != nil {
			Report(rf.Property, rf.Sub, v, f)
			t.Errorf("replay %s: %s: %s", f, v.Clause, v.Detail)
		}
	}
	fmt.Printf("VERIF-REPLAYED n=%d\n", n)
}

func safely(f func() *Violation) (v *Violation) {
	defer func() {
		if r := recover(); r != nil {
			v = &Violation{Clause: "no-panic", Detail: fmt.Sprintf("panic: %v", r), Sig: "panic"}
		}
	}()
	return f()
}

// Safely runs f and turns a panic into a violation.
func Safely(f func() *Violation) *Violation { return safely(f) }

// ---------------------------------------------------------------- campaigns

// Campaign is one generated search: draw a scenario, run it against code and
// oracle, classify it.
type Campaign[S any] struct {
	Prop, Sub string
	Rule      string // how cases are generated and what makes one non-trivial
	Quick     int    // number of cases, quick tier
	Thorough  int    // number of cases, thorough tier (over all shards)
	Gen       func(rt *rapid.T) S
	// Run executes one scenario; t is the outer *testing.T (for synctest and
	// scratch directories), never used to fail.
	Run func(t *testing.T, s S) (*Violation, Info)
	// Key, if set, gives the value hashed for the distinct count (default: the
	// scenario's JSON).
	Key func(s S) any
	// ShrinkTime overrides the time rapid may spend on shrinking a failure (default 20s); campaigns
	// whose failing cases are slow (real-time waits) and already small set it to next to nothing.
	ShrinkTime string
}

func (c *Campaign[S]) Register() {
	RegisterReplay(c.Prop, c.Sub, func(t *testing.T, raw json.RawMessage) *Violation {
		var s S
		if err := json.Unmarshal(raw, &s); err != nil {
			return V("replay-decode", "cannot decode scenario: %v", err)
		}
		v, _ := c.runSafe(t, s)
		return v
	})
}

func (c *Campaign[S]) runSafe(t *testing.T, s S) (v *Violation, info Info) {
	defer func() {
		if r := recover(); r != nil {
			v = &Violation{Clause: "no-panic", Detail: fmt.Sprintf("panic in harness or code under test: %v", r), Sig: "panic"}
		}
	}()
	return c.Run(t, s)
}

// Check runs the campaign under rapid and writes statistics; on failure the
// shrunk scenario is saved as a replay file and reported.
func (c *Campaign[S]) Check(t *testing.T) {
	n := N(c.Quick, c.Thorough)
	flag.Set("rapid.checks", strconv.Itoa(n))
	flag.Set("rapid.seed", strconv.FormatUint(RapidSeed(c.Sub), 10))
	flag.Set("rapid.nofailfile", "true")
	flag.Set("rapid.shrinktime", "20s")
	if c.ShrinkTime != "" {
		flag.Set("rapid.shrinktime", c.ShrinkTime)
	}
	rec := NewRec(c.Prop, c.Sub, c.Rule)
	rec.Set("requested", n)
	var lastS *S
	var lastV *Violation
	defer func() {
		rec.Flush()
		if t.Failed() {
			if lastV != nil && lastS != nil {
				p := WriteFailure(c.Prop, c.Sub, lastV, *lastS)
				Report(c.Prop, c.Sub, lastV, p)
			} else {
				v := V("harness", "test failed without a recorded violation (see log)")
				Report(c.Prop, c.Sub, v, "none")
			}
		}
	}()
	rapid.Check(t, func(rt *rapid.T) {
		s := c.Gen(rt)
		v, info := c.runSafe(t, s)
		var key any = s
		if c.Key != nil {
			key = c.Key(s)
		}
		rec.Case(key, info, s)
		if v != nil {
			sc := s
			lastS, lastV = &sc, v
			rt.Fatalf("%s: %s", v.Clause, v.Detail)
		}
	})
	rec.Completed()
}

// LenBias draws the minimum length for a generated sequence: rapid prefers short slices, so
// half of the sequences get a floor of about a third or two thirds of the maximum.  All
// randomness stays inside rapid (shrinking lowers the floor first).
func LenBias(rt *rapid.T, lo, hi int) int {
	f := rapid.SampledFrom([]int{lo, lo, lo + (hi-lo)/3, lo + 2*(hi-lo)/3}).Draw(rt, "min-length")
	if f < lo {
		f = lo
	}
	return f
}
