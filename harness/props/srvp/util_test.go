package srvp

import (
	"github.com/tink-crypto/tink-go/v2/tink"
	"verifharness/model"
)

func model_decode(b []byte, key tink.AEAD) (model.KV, error) { return model.DecodeDBFile(b, key) }
