package srvp

import (
	"bytes"
	"context"
	"encoding/base64"
	"encoding/hex"
	"encoding/json"
	"errors"
	"fmt"
	"net/http"
	"net/http/httptest"
	"os"
	"path/filepath"
	"strings"
	"sync"
	"testing"

	"github.com/tailscale/setec/audit"
	"github.com/tailscale/setec/db"
	"github.com/tailscale/setec/server"
	"github.com/tailscale/setec/types/api"
	"pgregory.net/rapid"
	"tailscale.com/client/tailscale/apitype"
	"tailscale.com/tailcfg"
	"verifharness/dbx"
	"verifharness/h"
	"verifharness/model"
)

// ---- C08: HTTP front door ----------------------------------------------------------

type HReq struct {
	Method   string       `json:"method"`
	CT       string       `json:"ct"`       // "" = header absent
	Hdr      string       `json:"hdr"`      // "-" = header absent
	Endpoint string       `json:"endpoint"` // list get info put activate delete-version delete
	BodyKind string       `json:"body"`     // valid valid-variant null truncated wrong-type bad-base64 version-range non-json empty
	BodyArg  int          `json:"body_arg"`
	Name     string       `json:"name"`
	Val      []byte       `json:"val"`
	VSel     string       `json:"vsel"`
	VArg     int          `json:"varg"`
	IfChg    bool         `json:"if_changed"`
	Addr     string       `json:"addr"`  // known unknown garbage
	Who      string       `json:"who"`   // tagged user anon whois-error https-cap both-caps plain-empty malformed-grant malformed-types
	Rules    []model.Rule `json:"rules"` // granted (under the plain cap unless Who says otherwise)
	Rules2   []model.Rule `json:"rules2"` // under the https:// cap for both-caps
	Login    string       `json:"login,omitempty"` // the login name the tailnet reports for a user (default alice@example.com)
	Spoof    string       `json:"spoof"`  // "" or a header claiming another source/identity (X-Forwarded-For, X-Real-Ip, Forwarded, Tailscale-User-Login)
	Outage   bool         `json:"outage,omitempty"` // the state directory is unavailable while the request is served (only matters if it would write)
	// the body arrives with Transfer-Encoding: chunked, i.e. without a declared length (any HTTP/1.1
	// client may send it that way; Go's own does for bodies of unknown size)
	Chunked bool `json:"chunked,omitempty"`
	// the request's context has already ended when the handler runs
	CtxEnded bool `json:"ctx_ended,omitempty"`
}

type HTTPCase struct {
	Pre  []dbx.Op `json:"pre"`
	Reqs []HReq   `json:"reqs"`
}

type countSink struct {
	mu    sync.Mutex
	lines [][]byte
}

func (s *countSink) Write(p []byte) (int, error) {
	s.mu.Lock()
	s.lines = append(s.lines, append([]byte{}, p...))
	s.mu.Unlock()
	return len(p), nil
}
func (s *countSink) n() int { s.mu.Lock(); defer s.mu.Unlock(); return len(s.lines) }
func (s *countSink) last() []byte {
	s.mu.Lock()
	defer s.mu.Unlock()
	if len(s.lines) == 0 {
		return nil
	}
	return s.lines[len(s.lines)-1]
}

const (
	capPlain = "tailscale.com/cap/secrets"
	capHTTPS = "https://tailscale.com/cap/secrets"
)

func rawRules(rs []model.Rule) []tailcfg.RawMessage {
	out := []tailcfg.RawMessage{}
	for _, r := range rs {
		b, _ := json.Marshal(r)
		out = append(out, tailcfg.RawMessage(b))
	}
	return out
}

func (r HReq) login() string {
	if r.Login != "" {
		return r.Login
	}
	return "alice@example.com"
}

// whoisFor renders the tailnet's answer for a request and says which rules
// must apply, or that the caller cannot be identified.
func whoisFor(r HReq) (resp *apitype.WhoIsResponse, err error, effective []model.Rule, identified bool) {
	node := &tailcfg.Node{Name: "client.example.ts.net"}
	prof := &tailcfg.UserProfile{}
	caps := tailcfg.PeerCapMap{}
	identified = true
	effective = r.Rules
	switch r.Who {
	case "tagged":
		node.Tags = []string{"tag:prod", "tag:web"}
		caps[capPlain] = rawRules(r.Rules)
	case "user":
		prof.LoginName = r.login()
		caps[capPlain] = rawRules(r.Rules)
	case "tagged-with-login":
		// what tailscaled reports for a tagged device: tags AND the placeholder login name
		node.Tags = []string{"tag:prod", "tag:web"}
		prof.LoginName = "tagged-devices"
		caps[capPlain] = rawRules(r.Rules)
	case "malformed-mixed":
		// one value of the grant list is not a rule: the grant as a whole cannot be parsed
		prof.LoginName = r.login()
		caps[capPlain] = append(rawRules(append([]model.Rule{{Action: []string{"get", "info", "put", "activate", "delete"}, Secret: []string{"*"}}}, r.Rules...)), `{"action":"get","secret":7}`)
		identified = false
	case "malformed-mixed-https":
		// (a value no parser of rules can take for one: a number where a pattern belongs. A bare string
		// in place of a one-element list is NOT used as "malformed": a parser may well accept that.)
		prof.LoginName = r.login()
		caps[capHTTPS] = append([]tailcfg.RawMessage{`{"action":["get"],"secret":[7]}`}, rawRules(append([]model.Rule{{Action: []string{"get", "info", "put", "activate", "delete"}, Secret: []string{"*"}}}, r.Rules...))...)
		identified = false
	case "anon":
		caps[capPlain] = rawRules(r.Rules)
		identified = false
	case "whois-error":
		return nil, errors.New("tailscaled: no such peer"), nil, false
	case "https-cap":
		prof.LoginName = r.login()
		caps[capHTTPS] = rawRules(r.Rules)
	case "both-caps":
		prof.LoginName = r.login()
		caps[capPlain] = rawRules(r.Rules)
		caps[capHTTPS] = rawRules(r.Rules2)
		if len(r.Rules) == 0 {
			effective = r.Rules2
		}
	case "plain-empty":
		node.Tags = []string{"tag:prod"}
		caps[capPlain] = []tailcfg.RawMessage{}
		caps[capHTTPS] = rawRules(r.Rules)
	case "malformed-grant":
		prof.LoginName = r.login()
		caps[capPlain] = []tailcfg.RawMessage{`[1,2]`}
		identified = false
	case "malformed-types":
		prof.LoginName = r.login()
		caps[capPlain] = []tailcfg.RawMessage{`{"action":"get","secret":5}`}
		identified = false
	}
	return &apitype.WhoIsResponse{Node: node, UserProfile: prof, CapMap: caps}, nil, effective, identified
}

// body renders the request body and says whether it is JSON the endpoint can decode.
func (r HReq) body(ver uint32) (data []byte, decodable bool) {
	var obj map[string]any
	switch r.Endpoint {
	case "list":
		obj = map[string]any{}
	case "get":
		obj = map[string]any{"Name": r.Name, "Version": ver, "UpdateIfChanged": r.IfChg}
	case "info", "delete":
		obj = map[string]any{"Name": r.Name}
	case "put":
		obj = map[string]any{"Name": r.Name, "Value": r.Val}
	case "activate", "delete-version":
		obj = map[string]any{"Name": r.Name, "Version": ver}
	}
	valid, _ := json.Marshal(obj)
	if r.Endpoint == "list" {
		switch r.BodyKind {
		case "wrong-type", "bad-base64", "version-range":
			// ListRequest has no fields: any JSON object decodes; only a non-object is a type error
			return [][]byte{[]byte(`[]`), []byte(`5`), []byte(`"x"`), []byte(`true`)}[r.BodyArg%4], false
		}
	}
	switch r.BodyKind {
	case "valid":
		return valid, true
	case "valid-variant":
		// lower-case field names, an extra field, trailing newline: all accepted by encoding/json
		lower := map[string]any{"zzExtra": []int{1, 2}}
		for k, v := range obj {
			lower[strings.ToLower(k)] = v
		}
		b, _ := json.Marshal(lower)
		return append(b, '\n'), true
	case "valid-omitted":
		// fields whose value is the zero value are left out altogether (hand-written JSON does that):
		// the request means exactly the same
		slim := map[string]any{}
		for k, v := range obj {
			switch x := v.(type) {
			case string:
				if x == "" {
					continue
				}
			case uint32:
				if x == 0 {
					continue
				}
			case bool:
				if !x {
					continue
				}
			case []byte:
				if len(x) == 0 {
					continue
				}
			}
			slim[k] = v
		}
		b, _ := json.Marshal(slim)
		return b, true
	case "null":
		return []byte("null"), true // a valid request with zero-valued fields
	case "truncated":
		if len(valid) <= 2 {
			return []byte("{"), false
		}
		return valid[:1+r.BodyArg%(len(valid)-1)], false
	case "wrong-type":
		if r.Endpoint == "list" {
			return []byte(`[]`), false
		}
		return []byte(`{"Name":5}`), false
	case "bad-base64":
		if r.Endpoint == "put" {
			return []byte(`{"Name":"a","Value":"!!"}`), false
		}
		return []byte(`{"Name":["a"]}`), false
	case "version-range":
		switch r.Endpoint {
		case "get", "activate", "delete-version":
			return []byte(fmt.Sprintf(`{"Name":%q,"Version":%s}`, "a", []string{"4294967296", "-1", "1.5", `"1"`}[r.BodyArg%4])), false
		}
		return []byte(`{"Name":{}}`), false
	case "non-json":
		return [][]byte{[]byte("xyz"), []byte("\x00\x01"), []byte("Name=a"), []byte("<xml/>"), []byte("{'Name':'a'}")}[r.BodyArg%5], false
	case "empty":
		return nil, false
	}
	panic(r.BodyKind)
}

func (r HReq) op() dbx.Op {
	o := dbx.Op{Name: r.Name, Val: r.Val, VSel: r.VSel, VArg: r.VArg}
	switch r.Endpoint {
	case "list":
		o.Kind = "list"
	case "get":
		o.Kind = "getver" // refined once the version is resolved
	case "info":
		o.Kind = "info"
	case "put":
		o.Kind = "put"
	case "activate":
		o.Kind = "activate"
	case "delete-version":
		o.Kind = "delver"
	case "delete":
		o.Kind = "del"
	}
	if r.BodyKind == "null" {
		o.Name, o.Val, o.VSel, o.VArg = "", nil, "zero", 0
	}
	return o
}

func valueEncodings(v []byte) [][]byte {
	if len(v) < 6 {
		return nil
	}
	return [][]byte{v, []byte(base64.StdEncoding.EncodeToString(v)), []byte(hex.EncodeToString(v))}
}

func leaks(hay []byte, values [][]byte) string {
	for _, v := range values {
		for _, e := range valueEncodings(v) {
			if bytes.Contains(hay, e) {
				return string(v)
			}
		}
	}
	return ""
}

func runC08(t *testing.T, c HTTPCase) (*h.Violation, h.Info) {
	var info h.Info
	dir := caseDir(t)
	defer os.RemoveAll(dir)
	sink := &countSink{}
	d, err := db.Open(filepath.Join(dir, "db"), dbx.DummyKey(), audit.New(sink))
	if err != nil {
		return h.V("harness", "open: %v", err), info
	}
	su := dbx.Super()
	tr := dbx.NewTracker()
	tr.Wire = true
	var stored [][]byte
	for i, op := range c.Pre {
		ver := tr.Resolve(op)
		want := tr.Expect(su.Rules, op, ver)
		if diff := dbx.Compare(dbx.DBTarget{D: d}.Do(su, op, ver), want); diff != "" && want.Class == model.OK {
			return h.V("harness", "pre step %d %s: %s", i, op, diff), info
		}
		if op.Kind == "put" {
			stored = append(stored, op.Val)
		}
	}
	var cur HReq
	var askedAddr string
	mux := http.NewServeMux()
	// (Config.AuditLog is documented as ignored when a DB is supplied; production sets it, so it is set here
	// too - into the same counting sink: a request the front door turns away leaves no record anywhere)
	curRemote := ""
	if _, err := server.New(context.Background(), server.Config{DB: d, Mux: mux, AuditLog: audit.New(sink), WhoIs: func(ctx context.Context, addr string) (*apitype.WhoIsResponse, error) {
		if addr != curRemote && curRemote != "" {
			// The tailnet answers for the address it is asked about. Asked about anything but the
			// request's source address (the bare IP, a forwarded address, ...) it describes whoever that
			// is - here somebody with every right: a server that asks the wrong question, for instance
			// after the right one failed, must not get away with the answer.
			askedAddr = addr
			return dbx.WhoIsOf(su), nil
		}
		askedAddr = addr
		if cur.Addr == "unknown" {
			return nil, errors.New("no such peer")
		}
		resp, err, _, _ := whoisFor(cur)
		return resp, err
	}}); err != nil {
		return h.V("harness", "server.New: %v", err), info
	}
	for i, r := range c.Reqs {
		cur = r
		askedAddr = ""
		op := r.op()
		ver := tr.Resolve(op)
		if r.BodyKind == "null" {
			ver = 0
		}
		if r.Endpoint == "get" {
			switch {
			case ver == 0:
				op.Kind = "get"
			case r.IfChg && r.BodyKind != "null":
				op.Kind = "cond"
			default:
				op.Kind = "getver"
			}
		}
		body, decodable := r.body(ver)
		remote := "100.64.7.7:5151"
		if r.Addr == "garbage" {
			remote = "not-an-address"
		}
		curRemote = remote
		req := httptest.NewRequest(r.Method, "/api/"+r.Endpoint, bytes.NewReader(body))
		if r.CtxEnded {
			// the client has gone away (its connection closed, a proxy gave up): the request's context has
			// ended by the time the handler runs - the reply it composes must be the same
			ectx, ecancel := context.WithCancel(req.Context())
			ecancel()
			req = req.WithContext(ectx)
			info.Class("request-context-already-ended")
		}
		req.RemoteAddr = remote
		if r.Chunked {
			req.ContentLength, req.TransferEncoding = -1, []string{"chunked"}
			info.Class("body-without-declared-length")
		}
		if r.CT != "" {
			req.Header.Set("Content-Type", r.CT)
		}
		if r.Hdr != "-" {
			req.Header.Set("Sec-X-Tailscale-No-Browsers", r.Hdr)
		}
		switch r.Spoof {
		case "X-Forwarded-For", "X-Real-Ip":
			req.Header.Set(r.Spoof, "100.64.9.9")
		case "Forwarded":
			req.Header.Set("Forwarded", "for=100.64.9.9:4141")
		case "Tailscale-User-Login":
			req.Header.Set("Tailscale-User-Login", "root@example.com")
		}
		_, _, effective, identified := whoisFor(r)
		if r.Addr != "known" {
			identified = false
		}
		var failed []string
		if r.Method != "POST" {
			failed = append(failed, "method")
		}
		if r.CT != "application/json" {
			failed = append(failed, "content-type")
		}
		if r.Hdr != "setec" {
			failed = append(failed, "no-browsers-header")
		}
		if !identified {
			failed = append(failed, "identity")
		}
		if !decodable {
			failed = append(failed, "body")
		}
		recBefore := sink.n()
		before := tr.M.String()
		w := httptest.NewRecorder()
		outage, idleOutage := false, false
		if r.Outage && len(failed) == 0 {
			shadow := tr.Clone()
			b0 := shadow.M.Render(true)
			if wantS := shadow.Expect(effective, op, ver); wantS.Class == model.OK && shadow.M.Render(true) != b0 {
				outage = true // the request is fine and would write: its save will fail
			} else if !op.Mutating() {
				// a read: it is answered as always - a server that is up serves from what it holds, disk
				// or no disk. (A put / activate / delete that happens to change nothing is left alone: an
				// implementation may persist it all the same, and whether it then succeeds on a broken disk
				// is not something C08 - which does not quantify over faults - decides.)
				idleOutage = true
				info.Class("state-directory-unavailable-during-a-read")
			}
		}
		var pv *h.Violation
		serve := func() { pv = h.Safely(func() *h.Violation { mux.ServeHTTP(w, req); return nil }) }
		if outage || idleOutage {
			held, err := dbx.Outage(dir, serve)
			if err != nil {
				return h.V("harness", "%v", err), info
			}
			outage = outage && held // (not held: the code put the directory back itself - an ordinary request)
		} else {
			serve()
		}
		if pv != nil {
			return h.V("never-a-panic", "request %d %+v: handler panicked: %s", i, r, pv.Detail), info
		}
		status, reply := w.Code, w.Body.Bytes()
		if outage {
			// "some other 4xx/5xx for any other failure": not a success, and not one of the statuses that mean something else
			info.Class("accepted-but-the-save-failed")
			info.NonTrivial = true
			if status < 400 || status == 403 || status == 404 {
				return h.V("outcome-maps-to-status-exactly", "request %d %s /api/%s on %q: the request is well-formed, identified and permitted, its save failed because the state directory was unavailable; status %d (body %q) - want some other 4xx/5xx, not a success, a denial or a not-found", i, r.Method, r.Endpoint, r.Name, status, reply), info
			}
			if leak := leaks(reply, append(stored, op.Val)); leak != "" {
				return h.V("non-200-reply-carries-no-secret", "request %d: status %d body %q contains %q", i, status, reply, leak), info
			}
			if dump, err := dbx.Dump(d); err != nil || dbx.DumpDiff(dump, tr.M) != "" {
				return h.V("state-equals-model", "request %d: after its save failed: %v %s", i, err, dbx.DumpDiff(dump, tr.M)), info
			}
			sink.mu.Lock()
			sink.lines = sink.lines[:min(len(sink.lines), recBefore+1)]
			sink.mu.Unlock()
			continue
		}
		desc := fmt.Sprintf("request %d %s /api/%s ct=%q hdr=%q who=%s addr=%s body(%s)=%q", i, r.Method, r.Endpoint, r.CT, r.Hdr, r.Who, r.Addr, r.BodyKind, body)
		if status != 200 {
			if leak := leaks(reply, stored); leak != "" {
				return h.V("non-200-reply-carries-no-secret", "%s: status %d body %q contains stored value %q", desc, status, reply, leak), info
			}
		}
		if len(failed) > 0 {
			info.Class("rejected-by-" + strings.Join(failed, "+"))
			if len(failed) == 1 {
				info.NonTrivial = true
			}
			if status >= 200 && status < 300 {
				return h.V("ill-formed-or-unidentified-request-gets-non-2xx", "%s: gates failed %v but status is %d, body %q", desc, failed, status, reply), info
			}
			if sink.n() != recBefore {
				return h.V("rejected-request-never-reaches-the-store", "%s: gates failed %v but %d audit record(s) were written", desc, failed, sink.n()-recBefore), info
			}
			dump, err := dbx.Dump(d)
			if err != nil || dbx.DumpDiff(dump, tr.M) != "" {
				return h.V("rejected-request-never-reaches-the-store", "%s: gates failed %v but the state changed: %v %s", desc, failed, err, dbx.DumpDiff(dump, tr.M)), info
			}
			sink.mu.Lock()
			sink.lines = sink.lines[:recBefore] // drop the dump's own records
			sink.mu.Unlock()
			continue
		}
		if r.CtxEnded && status >= 400 && sink.n() != recBefore {
			// The client had gone before the request was handled. A server may decline to work for it
			// (below) - or do the work and withhold the answer: nobody is left to read it. What it must
			// not do is leave the store in a state that is neither "not done" nor "done".
			dump, err := dbx.Dump(d)
			if err != nil {
				return h.V("failed-request-changes-nothing", "%s: client gone, answered %d: %v", desc, status, err), info
			}
			if dbx.DumpDiff(dump, tr.M) != "" {
				shadow := tr.Clone()
				shadow.Expect(effective, op, ver)
				if diff := dbx.DumpDiff(dump, shadow.M); diff != "" {
					return h.V("failed-request-changes-nothing", "%s: client gone, answered %d, and the state is neither the one before nor the one after the request: %s", desc, status, diff), info
				}
				tr = shadow
				if op.Kind == "put" {
					stored = append(stored, op.Val)
				}
			}
			sink.mu.Lock()
			sink.lines = sink.lines[:recBefore]
			sink.mu.Unlock()
			info.Class("client-gone-request-handled-answer-withheld")
			continue
		}
		if ((r.Chunked && (status == 400 || status == 411 || status == 413 || status == 415 || status == 501)) || (r.CtxEnded && status >= 400)) && sink.n() == recBefore {
			// (likewise a server may decline to work for a client that has already gone away)
			// a server may insist on a declared body length (the project's own client always sends one):
			// refusing the request outright, before it reaches the store, is not a wrong answer to it
			if dump, err := dbx.Dump(d); err != nil || dbx.DumpDiff(dump, tr.M) != "" {
				return h.V("rejected-request-never-reaches-the-store", "%s: refused with %d, yet the state changed: %v %s", desc, status, err, dbx.DumpDiff(dump, tr.M)), info
			}
			sink.mu.Lock()
			sink.lines = sink.lines[:recBefore]
			sink.mu.Unlock()
			info.Class("body-without-declared-length-refused")
			continue
		}
		// accepted: outcome from the model under exactly the effective rules
		info.Class("accepted")
		if askedAddr != remote {
			return h.V("identity-from-request-source-address", "%s: WhoIs was asked about %q, the request came from %q", desc, askedAddr, remote), info
		}
		if op.Kind == "put" {
			stored = append(stored, op.Val)
		}
		if op.Kind == "delver" || op.Kind == "activate" {
			for _, dv := range tr.Deleted[op.Name] {
				if dv == ver && tr.M[op.Name] != nil {
					info.Class(op.Kind + "-naming-a-version-deleted-earlier")
				}
			}
		}
		want := tr.Expect(effective, op, ver)
		var wantStatus []int
		switch want.Class {
		case model.OK:
			wantStatus = []int{200}
		case model.NotChanged:
			wantStatus = []int{304}
		case model.Denied:
			wantStatus = []int{403}
		case model.NotFound:
			wantStatus = []int{404}
		}
		okStatus := false
		for _, s := range wantStatus {
			if s == status {
				okStatus = true
			}
		}
		if want.Class == model.Other || (want.Class == model.Denied && want.AltOther && !okStatus) {
			okStatus = status >= 400 && status != 403 && status != 404
			if want.Class == model.Denied && status == 403 {
				okStatus = true
			}
			if want.AltNotFound && status == 404 {
				okStatus = true // the secret does not exist AND the version number is invalid: either answer
			}
		}
		if !okStatus {
			return h.V("outcome-maps-to-status-exactly", "%s by caller with rules %+v in state %s: status %d (body %q), the model's outcome is %s", desc, effective, before, status, reply, want), info
		}
		if status != 200 {
			info.NonTrivial = true
			info.Class(fmt.Sprintf("accepted-status-%d", status))
		}
		switch status {
		case 304:
			if len(reply) != 0 {
				return h.V("304-has-empty-body", "%s: 304 with body %q", desc, reply), info
			}
		case 200:
			got := dbx.Result{Class: model.OK}
			var derr error
			switch op.Kind {
			case "get", "getver", "cond":
				var sv api.SecretValue
				derr = json.Unmarshal(reply, &sv)
				got.HasVal, got.Ver, got.Val = true, uint32(sv.Version), sv.Value
				if got.Val == nil {
					got.Val = []byte{}
				}
			case "info":
				var in api.SecretInfo
				derr = json.Unmarshal(reply, &in)
				m := model.InfoM{Name: in.Name, Active: uint32(in.ActiveVersion)}
				for _, v := range in.Versions {
					m.Versions = append(m.Versions, uint32(v))
				}
				got.Info = &m
			case "list":
				var ins []*api.SecretInfo
				derr = json.Unmarshal(reply, &ins)
				got.IsList = true
				for _, in := range ins {
					m := model.InfoM{Name: in.Name, Active: uint32(in.ActiveVersion)}
					for _, v := range in.Versions {
						m.Versions = append(m.Versions, uint32(v))
					}
					got.List = append(got.List, m)
				}
				if leak := leaks(reply, stored); leak != "" {
					return h.V("list-never-values", "%s: list body contains stored value %q", desc, leak), info
				}
			case "put":
				var v api.SecretVersion
				derr = json.Unmarshal(reply, &v)
				got.Ver = uint32(v)
			default:
				var e struct{}
				derr = json.Unmarshal(reply, &e)
			}
			if derr != nil {
				return h.V("200-carries-the-json-result", "%s: 200 body %q does not decode: %v", desc, reply, derr), info
			}
			if want.Val == nil && want.HasVal {
				want.Val = []byte{}
			}
			if diff := dbx.Compare(got, want); diff != "" {
				return h.V("200-carries-the-json-result", "%s: %s", desc, diff), info
			}
			if ct := w.Header().Get("Content-Type"); ct != "application/json" {
				return h.V("200-carries-the-json-result", "%s: 200 reply has Content-Type %q", desc, ct), info
			}
		}
		// the recorded principal is that identity
		if sink.n() > recBefore {
			var rec struct {
				Principal struct {
					Hostname string   `json:"hostname"`
					IP       string   `json:"ip"`
					User     string   `json:"user"`
					Tags     []string `json:"tags"`
				} `json:"principal"`
			}
			if err := json.Unmarshal(sink.last(), &rec); err != nil {
				return h.V("recorded-principal-is-the-identity", "%s: audit record %q: %v", desc, sink.last(), err), info
			}
			resp, _, _, _ := whoisFor(r)
			wantUser, wantTags := resp.UserProfile.LoginName, strings.Join(resp.Node.Tags, ",")
			if len(resp.Node.Tags) > 0 {
				wantUser = ""
			}
			p := rec.Principal
			if p.Hostname != resp.Node.Name || p.IP != "100.64.7.7" || p.User != wantUser || strings.Join(p.Tags, ",") != wantTags {
				return h.V("recorded-principal-is-the-identity", "%s: recorded principal %+v, identity is node=%q user=%q tags=%q ip=100.64.7.7", desc, p, resp.Node.Name, wantUser, wantTags), info
			}
		}
		dump, err := dbx.Dump(d)
		if err != nil || dbx.DumpDiff(dump, tr.M) != "" {
			return h.V("state-equals-model", "%s: %v %s", desc, err, dbx.DumpDiff(dump, tr.M)), info
		}
	}
	return nil, info
}

var c08Names = []string{"a", "b", "dev/a", "a\nb", "", "_internal/x", "a", "zz"}

// sameQuestionByAnother lets some requests repeat the question of the request before them (endpoint,
// name, version, conditional flag) under their OWN identity and grant - two peers polling the same secret.
func sameQuestionByAnother(rt *rapid.T, reqs []HReq) []HReq {
	for i := 1; i < len(reqs); i++ {
		if rapid.IntRange(0, 5).Draw(rt, "retry") == 0 {
			// a client that sends the very same request again (it did not see the first answer): the second
			// one is judged like any other request, in the state the first one left behind
			reqs[i] = reqs[i-1]
			continue
		}
		if rapid.IntRange(0, 3).Draw(rt, "same-question") == 0 {
			p := reqs[i-1]
			reqs[i].Endpoint, reqs[i].Name, reqs[i].VSel, reqs[i].VArg, reqs[i].IfChg = p.Endpoint, p.Name, p.VSel, p.VArg, p.IfChg
		}
	}
	return reqs
}

func genHReq(rt *rapid.T) HReq {
	r := HReq{Method: "POST", CT: "application/json", Hdr: "setec", Addr: "known", BodyKind: "valid"}
	r.Endpoint = rapid.SampledFrom([]string{"list", "get", "get", "get", "info", "put", "put", "activate", "delete-version", "delete"}).Draw(rt, "endpoint")
	r.Name = rapid.SampledFrom(c08Names).Draw(rt, "name")
	r.VSel = rapid.SampledFrom([]string{"zero", "active", "latest", "next", "existing", "inactive", "inactive", "deleted", "deleted", "huge"}).Draw(rt, "vsel")
	r.VArg = rapid.IntRange(0, 4).Draw(rt, "varg")
	r.IfChg = rapid.Bool().Draw(rt, "ifchanged")
	if r.Endpoint == "put" {
		r.Val = rapid.SampledFrom([][]byte{{}, []byte("x"), []byte("SECRET-MARKER-VALUE-1"), []byte("other-marker-\x00\xff-2")}).Draw(rt, "val")
	}
	r.Who = rapid.SampledFrom([]string{"tagged", "user", "tagged", "user", "tagged-with-login", "https-cap", "both-caps", "plain-empty"}).Draw(rt, "who")
	genRules := func(label string) []model.Rule {
		switch rapid.IntRange(0, 3).Draw(rt, label) {
		case 0:
			return model.SuperRules()
		case 1:
			return []model.Rule{{Action: []string{"get", "info"}, Secret: []string{"*"}}}
		case 2:
			return nil
		}
		// one to three rules under the capability (a grant list is a list: every rule counts, each with
		// exactly its own actions and patterns; a rule without patterns grants nothing)
		return rapid.SliceOfN(rapid.Custom(func(rt *rapid.T) model.Rule {
			ru := model.Rule{Action: rapid.SliceOfNDistinct(rapid.SampledFrom(model.AllActions), 1, 4, func(s string) string { return s }).Draw(rt, label+"-acts")}
			if rapid.IntRange(0, 5).Draw(rt, label+"-nopat") != 0 {
				ru.Secret = []string{rapid.SampledFrom([]string{"a", "dev/*", "*", "b"}).Draw(rt, label+"-pat")}
			}
			return ru
		}), 1, 3).Draw(rt, label+"-list")
	}
	// login names are identities as they are: letter case and non-ASCII letters included
	r.Login = rapid.SampledFrom([]string{"", "", "", "Alice.Smith@Example.COM", "OctoCat@github", "ÅSA@example.com"}).Draw(rt, "login")
	r.Rules = genRules("rules")
	if r.Who == "both-caps" {
		r.Rules2 = genRules("rules2")
	}
	// break zero, one or several gates
	breaks := rapid.SampledFrom([]int{0, 0, 0, 1, 1, 1, 1, 2, 3}).Draw(rt, "breaks")
	for b := 0; b < breaks; b++ {
		switch rapid.SampledFrom([]string{"method", "ct", "hdr", "identity", "body", "body", "identity"}).Draw(rt, "gate") {
		case "method":
			r.Method = rapid.SampledFrom([]string{"GET", "PUT", "DELETE", "HEAD", "PATCH", "OPTIONS"}).Draw(rt, "method")
		case "ct":
			r.CT = rapid.SampledFrom([]string{"", "text/plain", "application/x-www-form-urlencoded", "application/jsonx", "json"}).Draw(rt, "ct")
		case "hdr":
			r.Hdr = rapid.SampledFrom([]string{"-", "", "1", "setecx", "true"}).Draw(rt, "hdr")
		case "identity":
			switch rapid.IntRange(0, 7).Draw(rt, "idkind") {
			case 6:
				r.Who = "malformed-mixed"
			case 7:
				r.Who = "malformed-mixed-https"
			case 0:
				r.Addr = "unknown"
			case 1:
				r.Addr = "garbage"
			case 2:
				r.Who = "anon"
			case 3:
				r.Who = "whois-error"
			case 4:
				r.Who = "malformed-grant"
			case 5:
				r.Who = "malformed-types"
			}
		case "body":
			r.BodyKind = rapid.SampledFrom([]string{"truncated", "wrong-type", "bad-base64", "version-range", "non-json", "empty"}).Draw(rt, "bodykind")
			r.BodyArg = rapid.IntRange(0, 60).Draw(rt, "bodyarg")
		}
	}
	if breaks == 0 {
		r.BodyKind = rapid.SampledFrom([]string{"valid", "valid", "valid-omitted", "valid-omitted", "valid-variant", "null"}).Draw(rt, "validkind")
	}
	r.Spoof = rapid.SampledFrom([]string{"", "", "", "X-Forwarded-For", "X-Real-Ip", "Forwarded", "Tailscale-User-Login"}).Draw(rt, "spoof")
	r.Outage = rapid.IntRange(0, 2).Draw(rt, "outage") == 0
	r.Chunked = rapid.IntRange(0, 3).Draw(rt, "chunked") == 0
	r.CtxEnded = rapid.IntRange(0, 5).Draw(rt, "ctxended") == 0
	return r
}

var c08 = &h.Campaign[HTTPCase]{
	Prop: "C08", Sub: "frontdoor",
	Rule: "rapid: a superuser pre-history, then 1-12 requests built by class (construction, not rejection): method, Content-Type, browser header, endpoint (all seven), body class (valid, valid with zero-valued fields omitted, valid with lower-case/extra fields, null, truncated at a generated offset, wrong JSON type, bad base64, version out of range, non-JSON, empty), source address (known, unknown, unparsable), WhoIs answer (tagged, tagged with the placeholder login name, user, anonymous, error, a grant list that mixes valid rules with a non-rule, rules under the plain cap / the https:// cap / both / plain cap present but empty, malformed grants), with 0-3 gates broken per request; rejected => non-2xx, no audit record, dump unchanged; accepted => status and JSON body from the ACL+map model under exactly the effective rules, recorded principal = identity; no non-200 body contains stored values; grant lists of one to three rules (a rule may lack patterns), login names with upper-case and non-ASCII letters; non-trivial = request rejected by exactly one gate, or accepted with a status other than 200; distinct by scenario",
	Quick: 3000, Thorough: 600000,
	Gen: func(rt *rapid.T) HTTPCase {
		c := genHTTPCase(rt)
		if rapid.IntRange(0, 5).Draw(rt, "rotation-tail") == 0 {
			// an operator rotates "a" (two more versions), deletes the older one - and the client, not
			// having seen the answer, sends the delete-version again; then somebody names the deleted
			// version in another request
			c.Pre = append(c.Pre, dbx.Op{Kind: "put", Name: "a", Val: []byte("rotated-1")}, dbx.Op{Kind: "put", Name: "a", Val: []byte("rotated-2")})
			del := HReq{Method: "POST", CT: "application/json", Hdr: "setec", Addr: "known", BodyKind: "valid", Endpoint: "delete-version", Name: "a", VSel: "inactive",
				VArg: rapid.IntRange(0, 3).Draw(rt, "tail-varg"), Who: rapid.SampledFrom([]string{"tagged", "user"}).Draw(rt, "tail-who"), Rules: model.SuperRules()}
			again := del
			again.VSel, again.VArg = "deleted", 100 // resolves to a version deleted earlier (most likely the one just deleted)
			other := again
			other.Endpoint = rapid.SampledFrom([]string{"activate", "get", "delete-version"}).Draw(rt, "tail-other")
			c.Reqs = append(c.Reqs, del, again, other)
		}
		return c
	},
	Run: runC08,
}

func genHTTPCase(rt *rapid.T) HTTPCase {
		return HTTPCase{
			Pre: rapid.SliceOfN(rapid.Custom(func(rt *rapid.T) dbx.Op {
				o := dbx.GenOp(rt, []string{"a", "b", "dev/a", "a\nb"}, []string{"put", "put", "put", "activate", "delver"}, 1)
				if o.Kind == "put" {
					o.Val = rapid.SampledFrom([][]byte{[]byte("PRE-STORED-SECRET-A"), []byte("pre-stored-\x01\x02-B"), []byte("x"), {}}).Draw(rt, "preval")
				}
				return o
			}), h.LenBias(rt, 0, 10), 10).Draw(rt, "pre"),
			Reqs: sameQuestionByAnother(rt, rapid.SliceOfN(rapid.Custom(genHReq), 1, 12).Draw(rt, "reqs")),
		}
}

func init() { c08.Register() }

func TestC08FrontDoor(t *testing.T) { c08.Check(t) }

// Native fuzz target: arbitrary bytes as the body of an otherwise acceptable
// request by a superuser, per endpoint.
func FuzzC08Body(f *testing.F) {
	eps := []string{"list", "get", "info", "put", "activate", "delete-version", "delete"}
	for i, s := range []string{`{}`, `{"Name":"a"}`, `{"Name":"a","Version":1,"UpdateIfChanged":true}`, `{"Name":"n","Value":"eA=="}`, `{"Name":"a","Version":2}`, `{"Name":"a","Version":1}`, `{"Name":"b"}`, `null`, `[]`, `{"Name":5}`, `{"Name":"a"`, `{"Name":"a","Version":4294967296}`, `"x"`, `{"name":"a","value":"!!"}`, `{"":1e700}`, `{"Name":"a","Version":1e2}`, `{"Name":"a"}{`, `{"Name":"\ud800"}`} {
		f.Add(uint8(i%7), []byte(s))
	}
	dir, _ := os.MkdirTemp(os.Getenv("VERIF_FAST_SCRATCH"), "fuzz08-")
	f.Cleanup(func() { os.RemoveAll(dir) })
	sink := &countSink{}
	su := dbx.Super()
	marker := []byte("FUZZ-STORED-SECRET-MARKER")
	// Every iteration starts from the same stored state, so that a saved input fails again when it
	// is run alone: the database is built once and built AGAIN whenever an iteration has changed it.
	var d *db.DB
	var mux *http.ServeMux
	gen, canon := 0, ""
	build := func() error {
		gen++
		var err error
		d, err = db.Open(filepath.Join(dir, fmt.Sprintf("db-%d", gen)), dbx.DummyKey(), audit.New(sink))
		if err != nil {
			return err
		}
		d.Put(su.DB(), "a", marker)
		d.Put(su.DB(), "a", []byte("second-version-marker"))
		d.Put(su.DB(), "b", marker)
		mux = http.NewServeMux()
		server.New(context.Background(), server.Config{DB: d, Mux: mux, WhoIs: func(ctx context.Context, addr string) (*apitype.WhoIsResponse, error) {
			return dbx.WhoIsOf(su), nil
		}})
		if gen > 1 {
			os.Remove(filepath.Join(dir, fmt.Sprintf("db-%d", gen-1)))
		}
		st, err := dbx.Dump(d)
		if err != nil {
			return err
		}
		canon = st.Render(false)
		sink.mu.Lock()
		sink.lines = nil
		sink.mu.Unlock()
		return nil
	}
	if err := build(); err != nil {
		f.Fatal(err)
	}
	f.Fuzz(func(t *testing.T, ep uint8, body []byte) {
		endpoint := eps[int(ep)%len(eps)]
		before, err := dbx.Dump(d)
		if err != nil {
			t.Fatalf("dump: %v", err)
		}
		n0 := sink.n()
		req := httptest.NewRequest("POST", "/api/"+endpoint, bytes.NewReader(body))
		req.RemoteAddr = "100.64.0.1:99"
		req.Header.Set("Content-Type", "application/json")
		req.Header.Set("Sec-X-Tailscale-No-Browsers", "setec")
		w := httptest.NewRecorder()
		var v *h.Violation
		if pv := h.Safely(func() *h.Violation { mux.ServeHTTP(w, req); return nil }); pv != nil {
			v = h.V("never-a-panic", "POST /api/%s body %q: %s", endpoint, body, pv.Detail)
		}
		n1 := sink.n()
		// "is JSON" = the first value is syntactically valid JSON (RawMessage: no number conversion -
		// {"":1e700} is valid JSON although it does not fit a float64)
		var first json.RawMessage
		isJSON := json.NewDecoder(bytes.NewReader(body)).Decode(&first) == nil
		after, derr := dbx.Dump(d)
		sink.mu.Lock()
		sink.lines = sink.lines[:n1]
		sink.mu.Unlock()
		switch {
		case v != nil:
		case derr != nil:
			v = h.V("state-consistent", "after POST /api/%s %q: %v", endpoint, body, derr)
		case !isJSON && w.Code >= 200 && w.Code < 300:
			v = h.V("ill-formed-or-unidentified-request-gets-non-2xx", "POST /api/%s with a body that is not JSON (%q) answered %d", endpoint, body, w.Code)
		case !isJSON && (n1 != n0 || before.Render(false) != after.Render(false)):
			v = h.V("rejected-request-never-reaches-the-store", "POST /api/%s with a body that is not JSON (%q): %d audit records, state changed=%v", endpoint, body, n1-n0, before.Render(false) != after.Render(false))
		case w.Code != 200 && leaks(w.Body.Bytes(), [][]byte{marker, []byte("second-version-marker")}) != "":
			v = h.V("non-200-reply-carries-no-secret", "POST /api/%s %q: status %d body %q", endpoint, body, w.Code, w.Body.Bytes())
		case w.Code != 200 && w.Code != 304 && before.Render(false) != after.Render(false):
			v = h.V("failed-request-changes-nothing", "POST /api/%s %q answered %d but the state changed", endpoint, body, w.Code)
		}
		if derr != nil || after.Render(false) != canon {
			if err := build(); err != nil {
				t.Fatalf("rebuilding the database: %v", err)
			}
		}
		if v != nil {
			p := h.WriteFailure("C08", "fuzzbody", v, map[string]any{"endpoint": endpoint, "body": body})
			h.Report("C08", "fuzzbody", v, p)
			t.Fatalf("%s: %s", v.Clause, v.Detail)
		}
	})
}
