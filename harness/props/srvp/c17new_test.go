package srvp

import (
	"bytes"
	"context"
	"fmt"
	"io"
	"net/http"
	"net/http/httptest"
	"os"
	"path/filepath"
	"sync"
	"testing"
	"time"

	"github.com/tailscale/setec/audit"
	"github.com/tailscale/setec/db"
	"github.com/tailscale/setec/server"
	"pgregory.net/rapid"
	"tailscale.com/client/tailscale/apitype"
	"verifharness/dbx"
	"verifharness/h"
)

// ---- C17 through server.New -------------------------------------------------------------------------
//
// The timelines above reach the backup task through a build-tagged hook.  This campaign goes through
// the front: server.New with the backup options set (the S3 endpoint is a loopback HTTP server, real
// time), in every way a database can be handed to the server - by handle, by path, or by handle with
// the (documented as ignored) path of some other file filled in as well.  What is uploaded at
// start-up is the database THIS server serves from.

type NewBackupCase struct {
	Via    string `json:"via"` // handle | path | handle-and-other-path
	Writes int    `json:"writes"`
}

var c17env sync.Once

func runC17New(t *testing.T, c NewBackupCase) (*h.Violation, h.Info) {
	var info h.Info
	dir := caseDir(t)
	defer os.RemoveAll(dir)
	var mu sync.Mutex
	var objects [][]byte
	got := make(chan struct{}, 64)
	s3 := httptest.NewServer(http.HandlerFunc(func(w http.ResponseWriter, r *http.Request) {
		body, _ := io.ReadAll(r.Body)
		if r.Method == http.MethodPut {
			mu.Lock()
			objects = append(objects, body)
			mu.Unlock()
			select {
			case got <- struct{}{}:
			default:
			}
		}
		w.Header().Set("ETag", `"x"`)
		w.WriteHeader(200)
	}))
	defer s3.Close()
	c17env.Do(func() {
		for k, v := range map[string]string{"AWS_ACCESS_KEY_ID": "AK", "AWS_SECRET_ACCESS_KEY": "SK", "AWS_SESSION_TOKEN": "", "AWS_PROFILE": "",
			"AWS_CONFIG_FILE": "/nonexistent/aws-config", "AWS_SHARED_CREDENTIALS_FILE": "/nonexistent/aws-credentials", "AWS_EC2_METADATA_DISABLED": "true"} {
			os.Setenv(k, v)
		}
	})
	os.Setenv("AWS_ENDPOINT_URL_S3", s3.URL)
	key := dbx.DummyKey()
	su := dbx.Super()
	mine, other := filepath.Join(dir, "mine", "database"), filepath.Join(dir, "elsewhere", "database")
	os.MkdirAll(filepath.Dir(mine), 0o700)
	os.MkdirAll(filepath.Dir(other), 0o700)
	// some other deployment's database lies around at the path a configuration template names
	if od, err := dbx.OpenDiscard(other, key); err == nil {
		od.Put(su.DB(), "somebody-elses-secret", []byte("x"))
	}
	d, err := db.Open(mine, key, audit.New(io.Discard))
	if err != nil {
		return h.V("harness", "open: %v", err), info
	}
	for i := 0; i < c.Writes; i++ {
		d.Put(su.DB(), "k", []byte(fmt.Sprintf("v%d", i)))
	}
	cfg := server.Config{Mux: http.NewServeMux(), BackupBucket: "bkt", BackupBucketRegion: "us-east-1",
		WhoIs: func(context.Context, string) (*apitype.WhoIsResponse, error) { return dbx.WhoIsOf(su), nil }}
	switch c.Via {
	case "handle":
		cfg.DB = d
	case "path":
		cfg.DBPath, cfg.Key, cfg.AuditLog = mine, key, audit.New(io.Discard)
	default:
		cfg.DB, cfg.DBPath, cfg.Key, cfg.AuditLog = d, other, key, audit.New(io.Discard)
	}
	ctx, cancel := context.WithCancel(context.Background())
	defer cancel()
	if _, err := server.New(ctx, cfg); err != nil {
		return h.V("harness", "server.New (%s): %v", c.Via, err), info
	}
	select {
	case <-got:
	case <-time.After(20 * time.Second):
		return h.V("first-upload-at-start-up", "a server constructed with backup options (database given by %s) had uploaded nothing 20 s after start-up", c.Via), info
	}
	time.Sleep(100 * time.Millisecond)
	cur, err := os.ReadFile(mine)
	if err != nil {
		return h.V("harness", "read: %v", err), info
	}
	mu.Lock()
	defer mu.Unlock()
	for i, o := range objects {
		if !bytes.Equal(o, cur) {
			what := "neither that nor the other file lying around"
			if ob, _ := os.ReadFile(other); bytes.Equal(o, ob) {
				what = "a copy of the file named by Config.DBPath, which is documented as ignored when a handle is given"
			}
			return h.V("upload-is-a-complete-database-file-that-existed", "server.New with the database given by %s: upload %d (%d bytes) is not the database this server serves from (%d bytes, nothing was written since start-up); it is %s", c.Via, i, len(o), len(cur), what), info
		}
	}
	info.NonTrivial = true
	info.Class("database-given-by-" + c.Via)
	return nil, info
}

var c17new = &h.Campaign[NewBackupCase]{
	Prop: "C17", Sub: "through-server-new",
	Rule: "rapid (real time, loopback S3 endpoint): server.New with BackupBucket set and the database given by handle, by path, or by handle plus the path of ANOTHER database file; 0-3 writes before start-up; the start-up upload arrives within 20 s and every object uploaded is byte-identical to the file the server serves from; non-trivial = every completed case; distinct by scenario",
	Quick: 6, Thorough: 60, ShrinkTime: "1ms",
	Gen: func(rt *rapid.T) NewBackupCase {
		return NewBackupCase{Via: rapid.SampledFrom([]string{"handle", "path", "handle-and-other-path", "handle-and-other-path"}).Draw(rt, "via"), Writes: rapid.IntRange(0, 3).Draw(rt, "writes")}
	},
	Run: runC17New,
}

func init() { c17new.Register() }

func TestC17ThroughServerNew(t *testing.T) { c17new.Check(t) }
