package srvp

import (
	"bytes"
	"context"
	"fmt"
	"net/http"
	"net/http/httptest"
	"os"
	"os/exec"
	"os/signal"
	"path/filepath"
	"strings"
	"sync"
	"syscall"
	"testing"
	"time"
	"unsafe"

	"github.com/tailscale/setec/client/setec"
	"github.com/tailscale/setec/server"
	"github.com/tailscale/setec/types/api"
	"pgregory.net/rapid"
	"tailscale.com/client/tailscale/apitype"
	"verifharness/dbx"
	"verifharness/fake"
	"verifharness/h"
	"verifharness/model"
)

// ---- C18: byte fidelity end to end, CLI text policy ----------------------------------

type ByteCase struct {
	Class string `json:"class"`
	Val   []byte `json:"val"`
	Big   int    `json:"big"` // if > 0 the value is Val repeated to about this many bytes
	// round-trip campaign only: the first attempt to put the value meets an unavailable state directory
	// (the put must fail), the client repeats the identical put once the directory is back
	Outage bool `json:"outage,omitempty"`
	// the failure is a write that stops after 100 bytes (file size limit) instead of a missing directory
	ShortWrite bool `json:"short_write,omitempty"`
}

func (c ByteCase) value() []byte {
	if c.Big <= 0 || len(c.Val) == 0 {
		return c.Val
	}
	return bytes.Repeat(c.Val, c.Big/len(c.Val)+1)[:c.Big]
}

var wsRunes = []rune{' ', '\t', '\n', '\v', '\f', '\r', 0x85, 0xA0, 0x1680, 0x2000, 0x2003, 0x200A, 0x2028, 0x2029, 0x202F, 0x205F, 0x3000}
var nearWS = []rune{0x200B, 0xFEFF, 0x180E, 0x1C, 0x1F, 0x2060, 0x00, // look like space, are not White_Space
	'à', 'Å', 'Ġ', 'ą'} // letters whose UTF-8 encoding ends in 0xA0 / 0x85 - bytes that would be White_Space as code points of their own

var roundTripClasses = []string{"empty", "ascii", "ws-text", "ws-text", "ws-only", "near-ws", "invalid-utf8", "invalid-utf8", "invalid-utf8-ws", "nul", "binary", "binary", "big"}
var cliClasses = []string{"empty", "empty", "ascii", "ws-text", "ws-text", "ws-text", "ws-text", "ws-only", "ws-only", "near-ws", "invalid-utf8", "invalid-utf8-ws", "invalid-utf8-ws", "nul", "binary", "big"}

func genBytes(rt *rapid.T) ByteCase { return genBytesOf(rt, roundTripClasses) }

func genBytesOf(rt *rapid.T, classes []string) ByteCase {
	c := ByteCase{Class: rapid.SampledFrom(classes).Draw(rt, "class")}
	ws := func(label string) string {
		return string(rapid.SliceOfN(rapid.SampledFrom(wsRunes), 0, 3).Draw(rt, label))
	}
	core := rapid.StringMatching(`[a-zA-Z0-9+/=_.-]{1,24}`)
	switch c.Class {
	case "empty":
		c.Val = []byte{}
	case "ascii":
		c.Val = []byte(core.Draw(rt, "core"))
	case "ws-text":
		c.Val = []byte(ws("lead") + core.Draw(rt, "core") + string(rapid.SampledFrom(wsRunes).Draw(rt, "mid")) + core.Draw(rt, "core2") + ws("trail"))
	case "ws-only":
		c.Val = []byte(string(rapid.SliceOfN(rapid.SampledFrom(wsRunes), 1, 4).Draw(rt, "ws")))
	case "near-ws":
		c.Val = []byte(string(rapid.SampledFrom(nearWS).Draw(rt, "l")) + core.Draw(rt, "core") + string(rapid.SampledFrom(nearWS).Draw(rt, "t")))
	case "invalid-utf8":
		c.Val = append([]byte(core.Draw(rt, "core")), rapid.SampledFrom([][]byte{{0xff}, {0xc0, 0x80}, {0xed, 0xa0, 0x80}, {0xf4, 0x90, 0x80, 0x80}, {0xe2, 0x80}, {0x80}}).Draw(rt, "bad")...)
	case "invalid-utf8-ws":
		c.Val = append(append([]byte(" \n"), rapid.SampledFrom([][]byte{{0xff}, {0xc0, 0x80}, {0xed, 0xa0, 0x80}, {0xe2, 0x80}}).Draw(rt, "bad")...), []byte(core.Draw(rt, "core")+"\n")...)
	case "nul":
		c.Val = []byte("a\x00b\x00" + ws("trail"))
	case "binary":
		c.Val = rapid.SliceOfN(rapid.Byte(), 1, 64).Draw(rt, "bytes")
	case "big":
		c.Val = rapid.SliceOfN(rapid.Byte(), 1, 16).Draw(rt, "pattern")
		c.Big = rapid.SampledFrom([]int{65536, 65536, 65537, 100000, 100000, 200000, 1 << 20, 4 << 20}).Draw(rt, "size")
	}
	return c
}

func classifyBytes(v []byte, info *h.Info) {
	if !model.ValidUTF8(v) {
		info.Class("invalid-utf8")
		info.NonTrivial = true
	} else if len(model.TrimWhiteSpace(v)) != len(v) {
		info.Class("surrounding-whitespace")
		info.NonTrivial = true
	}
	if len(v) >= 65536 {
		info.Class(">=64KiB")
		info.NonTrivial = true
	}
	if len(v) == 0 {
		info.Class("empty")
	}
}

func allAccess(ctx context.Context, addr string) (*apitype.WhoIsResponse, error) {
	return dbx.WhoIsOf(dbx.Super()), nil
}

func init() { signal.Ignore(syscall.SIGXFSZ) } // a write beyond RLIMIT_FSIZE must fail with EFBIG, not kill the test binary

func runC18(t *testing.T, c ByteCase) (*h.Violation, h.Info) {
	var info h.Info
	val := c.value()
	classifyBytes(val, &info)
	dir := caseDir(t)
	defer os.RemoveAll(dir)
	path := filepath.Join(dir, "db")
	d, err := dbx.OpenDiscard(path, dbx.DummyKey())
	if err != nil {
		return h.V("harness", "open: %v", err), info
	}
	mux := http.NewServeMux()
	if _, err := server.New(context.Background(), server.Config{DB: d, Mux: mux, WhoIs: allAccess}); err != nil {
		return h.V("harness", "server: %v", err), info
	}
	cl := setec.Client{Server: "http://setec.test", DoHTTP: func(r *http.Request) (*http.Response, error) {
		r.RemoteAddr = "100.64.0.1:1"
		w := httptest.NewRecorder()
		mux.ServeHTTP(w, r)
		return w.Result(), nil
	}}
	ctx := context.Background()
	// the value goes in twice: as the first version of a fresh name and as a later
	// version of an existing one (different code paths in the store)
	if _, err := cl.Put(ctx, "s", []byte("an earlier version, rather longer than many of the values that replace it: "+strings.Repeat("=", 300))); err != nil {
		return h.V("harness", "put: %v", err), info
	}
	// a Store with a file cache is already running on the earlier version; it sees the new value as a rotation
	cachePath := filepath.Join(dir, "cache", "c.json")
	fcache, err := setec.NewFileCache(cachePath)
	if err != nil {
		return h.V("harness", "cache: %v", err), info
	}
	// the program also has the secret filled into a field of its own configuration struct ...
	var own struct {
		S []byte `setec:"s"`
	}
	earlier := "an earlier version, rather longer than many of the values that replace it: " + strings.Repeat("=", 300)
	st, err := setec.NewStore(ctx, setec.StoreConfig{Client: cl, Secrets: []string{"s"}, Structs: []setec.Struct{{Value: &own}}, Cache: fcache, PollInterval: -1, Logf: func(string, ...any) {}})
	if err != nil {
		return h.V("harness", "NewStore: %v", err), info
	}
	defer st.Close()
	// ... and wipes that copy after use: the Store, its cache and everything reading it still have the value
	for i := range own.S {
		own.S[i] = 0
	}
	if got := st.Secret("s").Get(); string(got) != earlier {
		return h.V("bytes-round-trip-unchanged", "the program wiped its own copy of the secret (a []byte struct field filled by the Store); the Store's handle now yields %.40q... instead of the value that was put", got), info
	}
	// a caller keeps the bytes it got from the handle (the documentation lets it): they are its to keep
	held := st.Secret("s").Get()
	heldCopy := append([]byte{}, held...)
	outageHeld := c.Outage
	if c.Outage {
		var perr error
		if c.ShortWrite {
			var old syscall.Rlimit
			syscall.Getrlimit(syscall.RLIMIT_FSIZE, &old)
			syscall.Setrlimit(syscall.RLIMIT_FSIZE, &syscall.Rlimit{Cur: 100, Max: old.Max})
			_, perr = cl.Put(ctx, "s", append([]byte{}, val...))
			syscall.Setrlimit(syscall.RLIMIT_FSIZE, &old)
			info.Class("first-put-hit-a-short-write")
		} else {
			hd, err := dbx.Outage(dir, func() { _, perr = cl.Put(ctx, "s", append([]byte{}, val...)) })
			if err != nil {
				return h.V("harness", "%v", err), info
			}
			outageHeld = hd // (not held: the code put the directory back itself and carried on - an ordinary put)
		}
		if outageHeld && perr == nil {
			return h.V("bytes-round-trip-unchanged", "Put reported success while the database could not be written: the value cannot be on disk"), info
		}
		if !outageHeld {
			if perr != nil {
				return h.V("put-accepts-any-bytes", "Put of %d bytes (%s): %v", len(val), c.Class, perr), info
			}
		} else {
			info.Class("first-put-failed-then-repeated")
			// a server restarted at THIS moment still has everything that was acknowledged before
			raw, rerr := os.ReadFile(path)
			if rerr != nil {
				return h.V("bytes-round-trip-unchanged", "after a put that failed (%v) the database file is gone: %v - a restart now would lose every acknowledged value", perr, rerr), info
			}
			if kv, derr := model.DecodeDBFile(raw, dbx.DummyKey()); derr != nil || kv["s"] == nil || !strings.HasPrefix(kv["s"].Vers[1], "an earlier version") {
				return h.V("bytes-round-trip-unchanged", "after a put that failed (%v) the database file no longer holds the earlier, acknowledged version of the secret (%v)", perr, derr), info
			}
		}
	}
	ver, err := cl.Put(ctx, "s", append([]byte{}, val...))
	if err != nil {
		return h.V("put-accepts-any-bytes", "Put of %d bytes (%s): %v", len(val), c.Class, err), info
	}
	// a server restarted at this very moment (nothing else has been written since the acknowledgement)
	if d1, err := dbx.OpenDiscard(path, dbx.DummyKey()); err != nil {
		return h.V("bytes-round-trip-unchanged", "reopen right after the put: %v", err), info
	} else {
		sv, err := d1.GetVersion(dbx.Super().DB(), "s", ver)
		if err != nil || !bytes.Equal(valOf(sv), val) {
			return h.V("bytes-round-trip-unchanged", "a server restarted right after the acknowledged put (outage before it: %v): get-version %d = %.60q, %v; %d bytes %.60q were put", c.Outage, ver, valOf(sv), err, len(val), val), info
		}
	}
	if err := cl.Activate(ctx, "s", ver); err != nil {
		return h.V("harness", "activate: %v", err), info
	}
	fv, err := cl.Put(ctx, "fresh", append([]byte{}, val...))
	if err != nil {
		return h.V("put-accepts-any-bytes", "Put of %d bytes (%s) as a first version: %v", len(val), c.Class, err), info
	}
	// ... and once more after the newest version of a secret was deleted (the same bytes, or other bytes, before it)
	if _, err := cl.Put(ctx, "again", []byte("first version of again")); err != nil {
		return h.V("harness", "put: %v", err), info
	}
	prev := val
	if len(val)%2 == 1 {
		prev = []byte("something else")
	}
	if pv, err := cl.Put(ctx, "again", append([]byte{}, prev...)); err != nil {
		return h.V("put-accepts-any-bytes", "Put: %v", err), info
	} else if err := cl.DeleteVersion(ctx, "again", pv); err != nil {
		return h.V("harness", "delete-version %d: %v", pv, err), info
	}
	av, err := cl.Put(ctx, "again", append([]byte{}, val...))
	if err != nil {
		return h.V("put-accepts-any-bytes", "Put of %d bytes (%s) after the newest version was deleted: %v", len(val), c.Class, err), info
	}
	// ... and as a version that has neighbours: an older version is deleted and a newer one is put
	// afterwards - the version in between still holds exactly what was put
	if _, err := cl.Put(ctx, "mid", []byte("oldest version of mid")); err != nil {
		return h.V("harness", "put: %v", err), info
	}
	m2, err := cl.Put(ctx, "mid", []byte("second version of mid"))
	if err != nil {
		return h.V("harness", "put: %v", err), info
	}
	mv, err := cl.Put(ctx, "mid", append([]byte{}, val...))
	if err != nil {
		return h.V("put-accepts-any-bytes", "Put of %d bytes (%s) as a third version: %v", len(val), c.Class, err), info
	}
	if err := cl.DeleteVersion(ctx, "mid", m2); err != nil {
		return h.V("harness", "delete-version %d: %v", m2, err), info
	}
	if _, err := cl.Put(ctx, "mid", []byte("a newer version of mid, put after an older one was deleted")); err != nil {
		return h.V("harness", "put: %v", err), info
	}
	same := func(where string, got []byte, err error) *h.Violation {
		if err != nil {
			return h.V("bytes-round-trip-unchanged", "%s: %v", where, err)
		}
		if !bytes.Equal(got, val) {
			return h.V("bytes-round-trip-unchanged", "%s returned %d bytes %.60q, %d bytes %.60q were put (class %s)", where, len(got), got, len(val), val, c.Class)
		}
		return nil
	}
	sv, err := cl.Get(ctx, "s")
	if v := same("Client.Get", valOf(sv), err); v != nil {
		return v, info
	}
	sv, err = cl.GetVersion(ctx, "s", ver)
	if v := same("Client.GetVersion", valOf(sv), err); v != nil {
		return v, info
	}
	sv, err = cl.GetVersion(ctx, "mid", mv)
	if v := same("Client.GetVersion of a version whose older neighbour was deleted and after which another was put", valOf(sv), err); v != nil {
		return v, info
	}
	sv, err = cl.GetVersion(ctx, "fresh", fv)
	if v := same("Client.GetVersion of a first version", valOf(sv), err); v != nil {
		return v, info
	}
	sv, err = cl.GetVersion(ctx, "again", av)
	if v := same(fmt.Sprintf("Client.GetVersion of version %d, put after the newest version had been deleted,", av), valOf(sv), err); v != nil {
		return v, info
	}
	sv, err = cl.GetIfChanged(ctx, "s", ver+7)
	if v := same("Client.GetIfChanged", valOf(sv), err); v != nil {
		return v, info
	}
	// after a server restart
	d2, err := dbx.OpenDiscard(path, dbx.DummyKey())
	if err != nil {
		return h.V("bytes-round-trip-unchanged", "reopen: %v", err), info
	}
	sv, err = d2.Get(dbx.Super().DB(), "s")
	if v := same("get after restart", valOf(sv), err); v != nil {
		return v, info
	}
	// the restarted server goes on working (it writes), and is restarted once more
	if _, err := d2.Put(dbx.Super().DB(), "written-after-restart", []byte("x")); err != nil {
		return h.V("bytes-round-trip-unchanged", "a put on the restarted server: %v", err), info
	}
	d3, err := dbx.OpenDiscard(path, dbx.DummyKey())
	if err != nil {
		return h.V("bytes-round-trip-unchanged", "second restart (after the restarted server had written once): %v", err), info
	}
	sv, err = d3.Get(dbx.Super().DB(), "s")
	if v := same("get after a restart, a write and another restart", valOf(sv), err); v != nil {
		return v, info
	}
	// through the running Store (which picks the value up by polling), its cache, and a file client reading that cache
	if err := st.Refresh(ctx); err != nil {
		return h.V("bytes-round-trip-unchanged", "Store.Refresh: %v", err), info
	}
	if len(val) < 300 {
		info.Class("cache-rewritten-with-a-shorter-document")
	}
	if !bytes.Equal(held, heldCopy) {
		return h.V("bytes-round-trip-unchanged", "bytes returned by the Store's handle before the rotation (%.40q...) read %.40q... after the poll that installed the new version: the store modified bytes it had handed out", heldCopy, held), info
	}
	if v := same("Store handle after a poll", st.Secret("s").Get(), nil); v != nil {
		st.Close()
		return v, info
	}
	if c.Class != "big" || c.Big <= 1<<20 {
		if got := st.Secret("s").GetString(); got != string(val) {
			st.Close()
			return h.V("bytes-round-trip-unchanged", "Secret.GetString differs from the bytes put"), info
		}
	}
	afterPoll := st.Secret("s").Get()
	st.Close()
	// what the program holds it keeps - also when the Store has been closed
	if !bytes.Equal(afterPoll, val) || !bytes.Equal(held, heldCopy) {
		return h.V("bytes-round-trip-unchanged", "bytes obtained from the Store's handle before Close read %.40q... after Close (they were %.40q...): Close modified bytes it had handed out", afterPoll, val), info
	}
	if v := same("Store handle after Close", st.Secret("s").Get(), nil); v != nil {
		return v, info
	}
	data, err := os.ReadFile(cachePath)
	if err != nil {
		return h.V("bytes-round-trip-unchanged", "cache file: %v", err), info
	}
	doc, err := model.DecodeCacheStrict(data)
	if err != nil {
		return h.V("bytes-round-trip-unchanged", "cache document: %v", err), info
	}
	if v := same("cache document", orEmpty(doc["s"].Value), nil); v != nil {
		return v, info
	}
	// a second store from the cache alone
	bctx, bcancel := context.WithTimeout(ctx, 1500*time.Millisecond)
	defer bcancel()
	st2, err := setec.NewStore(bctx, setec.StoreConfig{Client: fake.NewSvc(), Secrets: []string{"s"}, Cache: fcache, PollInterval: -1, Logf: func(string, ...any) {}})
	if err != nil {
		return h.V("bytes-round-trip-unchanged", "store from cache: %v", err), info
	}
	v := same("Store restarted from its cache", st2.Secret("s").Get(), nil)
	st2.Close()
	if v != nil {
		return v, info
	}
	if len(val) > 0 {
		fc, err := setec.NewFileClient(cachePath)
		if err != nil {
			return h.V("bytes-round-trip-unchanged", "NewFileClient on the cache: %v", err), info
		}
		sv, err := fc.Get(ctx, "s")
		if v := same("FileClient reading the cache", valOf(sv), err); v != nil {
			return v, info
		}
	}
	return nil, info
}

func valOf(sv *api.SecretValue) []byte {
	if sv == nil {
		return nil
	}
	return orEmpty(sv.Value)
}

func orEmpty(b []byte) []byte {
	if b == nil {
		return []byte{}
	}
	return b
}

var c18 = &h.Campaign[ByteCase]{
	Prop: "C18", Sub: "roundtrip",
	Rule:  "rapid: byte strings by class (empty, ASCII, text with leading/inner/trailing White_Space code points, whitespace only, look-alikes that are not White_Space, invalid UTF-8 with and without surrounding whitespace, NULs, random binary, 64 KiB - 4 MiB patterns) put through setec.Client into the real handlers and database (one case in four: first while the state directory is unavailable - must fail - then again), with a Store + FileCache already running on a longer earlier version; read back by get / get-version / conditional get, from a database re-opened right after the acknowledgement and again later, through a Store handle, GetString, the FileCache document (decoded by the harness's own codec), a Store restarted from that cache with an unreachable service, and a FileClient on that cache (non-empty values); also as a version whose older neighbour is deleted and after which another version is put; non-trivial = invalid UTF-8, surrounding whitespace, or >= 64 KiB; distinct by (class, bytes)",
	Quick: 500, Thorough: 60000,
	Gen: func(rt *rapid.T) ByteCase {
		c := genBytes(rt)
		c.Outage = rapid.IntRange(0, 3).Draw(rt, "outage") == 0
		c.ShortWrite = c.Outage && rapid.Bool().Draw(rt, "shortwrite")
		return c
	},
	Run: runC18,
	Key: func(c ByteCase) any { return fmt.Sprintf("%s/%d/%x/%v", c.Class, c.Big, c.Val, c.Outage) },
}

// ---- CLI -------------------------------------------------------------------------

type CLICase struct {
	Input    ByteCase `json:"input"`
	Verbatim bool     `json:"verbatim"`
	Trim     bool     `json:"trim_space"`
	EmptyOK  bool     `json:"empty_ok"`
	FromFile bool     `json:"from_file"` // else: piped on stdin
	// with FromFile: the "file" named is /dev/stdin, i.e. a pipe (as with process substitution or a FIFO):
	// something that can be read to the end but has no size to ask for beforehand
	PipeAsFile bool `json:"pipe_as_file,omitempty"`
}

type cliServer struct {
	mu   sync.Mutex
	reqs int
	hs   *httptest.Server
	d    interface {
	}
}

var (
	cliOnce sync.Once
	cliBin  string
	cliErr  error
)

func setecBinary() (string, error) {
	cliOnce.Do(func() {
		cliBin = filepath.Join(os.Getenv("VERIF_BUILD"), "setec")
		if _, err := os.Stat(cliBin); err != nil {
			cliErr = fmt.Errorf("CLI binary %s not built (the driver builds it): %v", cliBin, err)
		}
	})
	return cliBin, cliErr
}

func runC18CLI(t *testing.T, c CLICase) (*h.Violation, h.Info) {
	var info h.Info
	bin, err := setecBinary()
	if err != nil {
		return h.V("harness", "%v", err), info
	}
	input := c.Input.value()
	classifyBytes(input, &info)
	dir := caseDir(t)
	defer os.RemoveAll(dir)
	d, err := dbx.OpenDiscard(filepath.Join(dir, "db"), dbx.DummyKey())
	if err != nil {
		return h.V("harness", "open: %v", err), info
	}
	mux := http.NewServeMux()
	if _, err := server.New(context.Background(), server.Config{DB: d, Mux: mux, WhoIs: allAccess}); err != nil {
		return h.V("harness", "server: %v", err), info
	}
	var mu sync.Mutex
	nreq := 0
	hs := httptest.NewServer(http.HandlerFunc(func(w http.ResponseWriter, r *http.Request) {
		mu.Lock()
		nreq++
		mu.Unlock()
		mux.ServeHTTP(w, r)
	}))
	defer hs.Close()
	args := []string{"-s", hs.URL, "put"}
	if c.Verbatim {
		args = append(args, "--verbatim")
	}
	if c.Trim {
		args = append(args, "--trim-space")
	}
	if c.EmptyOK {
		args = append(args, "--empty-ok")
	}
	ctx, cancel := context.WithTimeout(context.Background(), 60*time.Second)
	defer cancel()
	var stdin *os.File
	if c.FromFile && c.PipeAsFile {
		args = append(args, "--from-file", "/dev/stdin")
		info.Class("source-file-that-is-a-pipe")
	} else if c.FromFile {
		p := filepath.Join(dir, "input.bin")
		os.WriteFile(p, input, 0o600)
		args = append(args, "--from-file", p)
		info.Class("source-file")
	} else {
		info.Class("source-pipe")
	}
	args = append(args, "cli/secret")
	cmd := exec.CommandContext(ctx, bin, args...)
	if !c.FromFile || c.PipeAsFile {
		cmd.Stdin = bytes.NewReader(input) // a pipe, never a terminal
	} else {
		stdin, _ = os.Open(os.DevNull)
		cmd.Stdin = stdin
		defer stdin.Close()
	}
	cmd.Env = append(os.Environ(), "SETEC_SERVER=")
	out, runErr := cmd.CombinedOutput()
	if ctx.Err() != nil {
		return h.V("harness", "CLI timed out: %s", out), info
	}
	sent, want := model.PutPolicy(input, c.Verbatim, c.Trim, c.EmptyOK)
	mu.Lock()
	n := nreq
	mu.Unlock()
	desc := fmt.Sprintf("setec put verbatim=%v trim-space=%v empty-ok=%v source=%s input(%s)=%d bytes %.40q", c.Verbatim, c.Trim, c.EmptyOK, map[bool]string{true: map[bool]string{true: "file(/dev/stdin, a pipe)", false: "file"}[c.PipeAsFile], false: "pipe"}[c.FromFile], c.Input.Class, len(input), input)
	if !sent {
		info.Class("refused")
		if runErr == nil {
			return h.V("cli-refuses-without-contacting-server", "%s: must be refused, but the command exited 0: %s", desc, out), info
		}
		if n != 0 {
			return h.V("cli-refuses-without-contacting-server", "%s: refused, but %d request(s) reached the server", desc, n), info
		}
		return nil, info
	}
	info.Class("sent")
	if runErr != nil {
		return h.V("cli-sends-exactly-the-bytes", "%s: must be sent, but the command failed: %v: %s", desc, runErr, out), info
	}
	sv, err := d.Get(dbx.Super().DB(), "cli/secret")
	if err != nil {
		return h.V("cli-sends-exactly-the-bytes", "%s: nothing stored: %v (output %s)", desc, err, out), info
	}
	if !bytes.Equal(orEmpty(sv.Value), orEmpty(want)) {
		return h.V("cli-sends-exactly-the-bytes", "%s: stored %d bytes %.60q, policy says %d bytes %.60q", desc, len(sv.Value), sv.Value, len(want), want), info
	}
	if !bytes.Equal(want, input) {
		info.Class("sent-trimmed")
	}
	// ... and the get command, with its output redirected (a file, a pipe: not a terminal), writes
	// exactly those bytes - whether the person typing the command sits at a terminal or not
	for _, stdinKind := range []string{"null", "pty"} {
		gctx, gcancel := context.WithTimeout(context.Background(), 60*time.Second)
		gcmd := exec.CommandContext(gctx, bin, "-s", hs.URL, "get", "cli/secret")
		gcmd.Env = append(os.Environ(), "SETEC_SERVER=")
		var in *os.File
		if stdinKind == "pty" {
			master, slave, err := openPTY()
			if err != nil {
				gcancel()
				info.Class("no-pseudo-terminal-available")
				continue
			}
			defer master.Close()
			in = slave
		} else {
			in, _ = os.Open(os.DevNull)
		}
		gcmd.Stdin = in
		var stdout, stderr bytes.Buffer
		gcmd.Stdout, gcmd.Stderr = &stdout, &stderr
		gerr := gcmd.Run()
		in.Close()
		gcancel()
		if gerr != nil {
			return h.V("bytes-round-trip-unchanged", "setec get (stdin=%s, output redirected) failed: %v: %s", stdinKind, gerr, stderr.String()), info
		}
		if !bytes.Equal(stdout.Bytes(), orEmpty(want)) {
			return h.V("bytes-round-trip-unchanged", "setec get with its output redirected (stdin: %s) wrote %d bytes %.60q; the stored value has %d bytes %.60q", map[string]string{"null": "/dev/null", "pty": "a terminal"}[stdinKind], stdout.Len(), stdout.Bytes(), len(want), want), info
		}
		info.Class("cli-get-stdin-" + stdinKind)
	}
	return nil, info
}

// openPTY opens a pseudo-terminal pair (Linux): the slave end is a terminal as far as isatty goes.
func openPTY() (master, slave *os.File, err error) {
	master, err = os.OpenFile("/dev/ptmx", os.O_RDWR|syscall.O_NOCTTY, 0)
	if err != nil {
		return nil, nil, err
	}
	var n uint32
	var unlock int32
	if _, _, e := syscall.Syscall(syscall.SYS_IOCTL, master.Fd(), 0x40045431 /* TIOCSPTLCK */, uintptr(unsafe.Pointer(&unlock))); e != 0 {
		master.Close()
		return nil, nil, e
	}
	if _, _, e := syscall.Syscall(syscall.SYS_IOCTL, master.Fd(), 0x80045430 /* TIOCGPTN */, uintptr(unsafe.Pointer(&n))); e != 0 {
		master.Close()
		return nil, nil, e
	}
	slave, err = os.OpenFile(fmt.Sprintf("/dev/pts/%d", n), os.O_RDWR|syscall.O_NOCTTY, 0)
	if err != nil {
		master.Close()
		return nil, nil, err
	}
	return master, slave, nil
}

var c18cli = &h.Campaign[CLICase]{
	Prop: "C18", Sub: "cli",
	Rule:  "rapid: the setec binary built from /repo runs `put` against an in-process server on a loopback listener for every combination of --verbatim, --trim-space, --empty-ok and source (--from-file or a pipe on stdin) with inputs from the same byte classes (up to 1 MiB); an independent policy (own White_Space table, own UTF-8 validator) predicts sent-verbatim / sent-trimmed / refused; refused => non-zero exit and zero requests at the server, sent => stored bytes equal the prediction; non-trivial = invalid UTF-8, surrounding whitespace or >= 64 KiB input; distinct by scenario",
	Quick: 200, Thorough: 20000,
	Gen: func(rt *rapid.T) CLICase {
		c := CLICase{Input: genBytesOf(rt, cliClasses), Verbatim: rapid.Bool().Draw(rt, "verbatim"), Trim: rapid.Bool().Draw(rt, "trim"), EmptyOK: rapid.Bool().Draw(rt, "emptyok"), FromFile: rapid.Bool().Draw(rt, "fromfile")}
		c.PipeAsFile = c.FromFile && rapid.IntRange(0, 2).Draw(rt, "pipeasfile") == 0
		if c.Input.Big > 1<<20 {
			c.Input.Big = 1 << 20
		}
		return c
	},
	Run: runC18CLI,
}

// The full cross product of put flags and input sources over representative inputs.
func TestC18CLIMatrix(t *testing.T) {
	h.FirstShardOnly(t)
	rec := h.NewRec("C18", "cli-matrix", "every combination of --verbatim x --trim-space x --empty-ok x {--from-file, pipe} (16) over 16 representative inputs (empty, plain, ASCII and Unicode surrounding whitespace, whitespace only, invalid UTF-8 with and without surrounding whitespace, NUL, look-alike non-whitespace, 70 KB text with trailing newline, 70 KB binary, 3 MiB+17 binary): complete enumeration; non-trivial as in the cli sub-campaign; distinct by (flags, source, input)")
	defer rec.Flush()
	big := bytes.Repeat([]byte("0123456789abcdef"), 4400)
	inputs := []ByteCase{
		{Class: "empty", Val: []byte{}}, {Class: "ascii", Val: []byte("abc")}, {Class: "ws-text", Val: []byte(" abc\n")}, {Class: "ws-text", Val: []byte("\u3000x y\u2028")},
		{Class: "ws-only", Val: []byte(" \n\t")}, {Class: "invalid-utf8", Val: []byte("\xffabc")}, {Class: "invalid-utf8-ws", Val: []byte(" \n\xffabc\n")},
		{Class: "nul", Val: []byte("a\x00b\x00")}, {Class: "nul", Val: []byte(" a\x00b\n")}, {Class: "near-ws", Val: []byte("\u200bx\ufeff")}, {Class: "near-ws", Val: []byte("voilà")}, {Class: "near-ws", Val: []byte("Åre città")}, {Class: "ws-text", Val: []byte("-----BEGIN KEY-----\nabc\n-----END KEY-----\n")},
		{Class: "big", Val: append(append([]byte{}, big...), '\n')}, {Class: "big", Val: append([]byte{0xff, 0x00}, big...)},
		{Class: "big", Val: append([]byte{0xfe}, bytes.Repeat([]byte("0123456789abcdef"), 3*65536+1)...)}, // 3 MiB + 17 bytes
	}
	var cases []CLICase
	for _, in := range inputs {
		for m := 0; m < 16; m++ {
			cases = append(cases, CLICase{Input: in, Verbatim: m&1 != 0, Trim: m&2 != 0, EmptyOK: m&4 != 0, FromFile: m&8 != 0})
		}
	}
	type res struct {
		c    CLICase
		v    *h.Violation
		info h.Info
	}
	out := make(chan res, len(cases))
	sem := make(chan struct{}, 8)
	for _, c := range cases {
		sem <- struct{}{}
		go func() {
			defer func() { <-sem }()
			v, info := runC18CLI(t, c)
			out <- res{c, v, info}
		}()
	}
	var first *res
	for range cases {
		r := <-out
		rec.Case(fmt.Sprintf("%v/%v/%v/%v/%x", r.c.Verbatim, r.c.Trim, r.c.EmptyOK, r.c.FromFile, r.c.Input.Val[:min(len(r.c.Input.Val), 16)]), r.info, map[string]any{"verbatim": r.c.Verbatim, "trim_space": r.c.Trim, "empty_ok": r.c.EmptyOK, "from_file": r.c.FromFile, "input_class": r.c.Input.Class, "input_bytes": len(r.c.Input.Val)})
		if r.v != nil && first == nil {
			rr := r
			first = &rr
		}
	}
	if first != nil {
		p := h.WriteFailure("C18", "cli", first.v, first.c)
		h.Report("C18", "cli", first.v, p)
		t.Fatalf("%s: %s", first.v.Clause, first.v.Detail)
	}
	rec.Exhaustive()
	rec.Completed()
}

func init() { c18.Register(); c18cli.Register() }

func TestC18RoundTrip(t *testing.T) { c18.Check(t) }
func TestC18CLI(t *testing.T)       { c18cli.Check(t) }

// the policy model itself must agree with the property's own examples
func TestC18PolicySelfCheck(t *testing.T) {
	h.FirstShardOnly(t)
	type ex struct {
		in           string
		v, tr, e, ok bool
		out          string
	}
	for _, x := range []ex{
		{"abc", false, false, false, true, "abc"}, {" abc\n", false, false, false, false, ""}, {" abc\n", true, false, false, true, " abc\n"},
		{" abc\n", false, true, false, true, "abc"}, {" abc\n", true, true, false, true, " abc\n"}, {"", false, false, false, false, ""},
		{"", false, false, true, true, ""}, {" \n", false, true, false, false, ""}, {" \n", false, true, true, true, ""}, {"\xff \n", false, false, false, true, "\xff \n"},
		{"　x", false, true, false, true, "x"}, {"​x", false, false, false, true, "​x"},
	} {
		ok, out := model.PutPolicy([]byte(x.in), x.v, x.tr, x.e)
		if ok != x.ok || (ok && string(out) != x.out) {
			t.Fatalf("policy(%q,%v,%v,%v) = %v,%q", x.in, x.v, x.tr, x.e, ok, out)
		}
	}
}

// Native fuzz target: any bytes round-trip through client, server, database and restart.
func FuzzC18RoundTrip(f *testing.F) {
	for _, s := range []string{"", "a", " a ", "\n", "\xff\xfe", "a\x00b", "　 ", "é", "\xed\xa0\x80", "\xf4\x90\x80\x80", `"quoted"\n`, "null", "{}"} {
		f.Add([]byte(s))
	}
	dir, _ := os.MkdirTemp(os.Getenv("VERIF_FAST_SCRATCH"), "fuzz18-")
	f.Cleanup(func() { os.RemoveAll(dir) })
	path := filepath.Join(dir, "db")
	d, err := dbx.OpenDiscard(path, dbx.DummyKey())
	if err != nil {
		f.Fatal(err)
	}
	mux := http.NewServeMux()
	server.New(context.Background(), server.Config{DB: d, Mux: mux, WhoIs: allAccess})
	cl := setec.Client{Server: "http://setec.test", DoHTTP: func(r *http.Request) (*http.Response, error) {
		r.RemoteAddr = "100.64.0.1:1"
		w := httptest.NewRecorder()
		mux.ServeHTTP(w, r)
		return w.Result(), nil
	}}
	n := 0
	f.Fuzz(func(t *testing.T, val []byte) {
		n++
		name := fmt.Sprintf("f%d", n%8)
		ctx := context.Background()
		var v *h.Violation
		ver, err := cl.Put(ctx, name, append([]byte{}, val...))
		if err != nil {
			v = h.V("put-accepts-any-bytes", "Put(%q): %v", val, err)
		} else if sv, err := cl.GetVersion(ctx, name, ver); err != nil || !bytes.Equal(orEmpty(sv.Value), orEmpty(val)) {
			v = h.V("bytes-round-trip-unchanged", "GetVersion returned %q, %v for %q", valOf(sv), err, val)
		} else if d2, err := dbx.OpenDiscard(path, dbx.DummyKey()); err != nil {
			v = h.V("bytes-round-trip-unchanged", "reopen: %v", err)
		} else if sv, err := d2.GetVersion(dbx.Super().DB(), name, ver); err != nil || !bytes.Equal(orEmpty(sv.Value), orEmpty(val)) {
			v = h.V("bytes-round-trip-unchanged", "after restart GetVersion returned %q, %v for %q", valOf(sv), err, val)
		}
		if v != nil {
			p := h.WriteFailure("C18", "fuzzbytes", v, val)
			h.Report("C18", "fuzzbytes", v, p)
			t.Fatalf("%s: %s", v.Clause, v.Detail)
		}
	})
}
