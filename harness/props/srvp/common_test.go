package srvp

import (
	"os"
	"path/filepath"
	"sync/atomic"
	"testing"

	"verifharness/h"
)

var (
	baseDir string
	dirSeq  atomic.Int64
)

func caseDir(t *testing.T) string {
	if baseDir == "" {
		baseDir = h.Scratch(t)
	}
	d := filepath.Join(baseDir, "c"+itoa(dirSeq.Add(1)))
	os.MkdirAll(d, 0o700)
	return d
}

func itoa(n int64) string {
	if n == 0 {
		return "0"
	}
	var b []byte
	for n > 0 {
		b = append([]byte{byte('0' + n%10)}, b...)
		n /= 10
	}
	return string(b)
}

func TestMain(m *testing.M) {
	code := m.Run()
	if baseDir != "" {
		os.RemoveAll(baseDir)
	}
	os.Exit(code)
}

func TestReplay(t *testing.T) { h.Replay(t, "C04", "C05", "C08", "C17", "C18") }
