package srvp

import (
	"syscall"
	"bytes"
	"encoding/json"
	"context"
	"errors"
	"fmt"
	"io"
	"log"
	"net/http"
	"os"
	"path/filepath"
	"sort"
	"strings"
	"sync"
	"sync/atomic"
	"testing"
	"testing/synctest"
	"time"

	"github.com/aws/aws-sdk-go-v2/aws"
	"github.com/aws/aws-sdk-go-v2/credentials"
	"github.com/aws/aws-sdk-go-v2/service/s3"
	"github.com/tailscale/setec/audit"
	"github.com/tailscale/setec/db"
	"github.com/tailscale/setec/server"
	"github.com/tink-crypto/tink-go/v2/tink"
	"pgregory.net/rapid"
	"verifharness/dbx"
	"verifharness/h"
)

// ---- C17: backups ---------------------------------------------------------------------

type attempt struct {
	at, end time.Duration
	body    []byte
	ok      bool
	key     string
}

type fakeS3 struct {
	mu       sync.Mutex
	t0       time.Time
	script   []string // per attempt: ok | fail | neterr | block (7.3s then ok) | slowNN (NN.3 s then ok) | hang (until the request context ends)
	attempts []attempt
	release  chan struct{}
	stateDir string // scanned at the start of every upload attempt (C05: files readable by their owner only)
}

// looseDuringUpload is set by every run of runC17Bubble: the first file of the state directory that
// was readable or writable by group/others while an upload was being served ("" = none).
var looseDuringUpload atomic.Value

func init() { syscall.Umask(0o022) } // the usual umask of a service: modes must come from the code, not from luck

func (f *fakeS3) Do(r *http.Request) (*http.Response, error) {
	if r.Method != http.MethodPut {
		// not an upload (a HEAD on the bucket, say): the bucket is there; nothing to record
		if r.Body != nil {
			io.Copy(io.Discard, r.Body)
		}
		return &http.Response{StatusCode: 200, Header: http.Header{}, Body: io.NopCloser(bytes.NewReader(nil)), Request: r}, nil
	}
	if f.stateDir != "" {
		if es, err := os.ReadDir(f.stateDir); err == nil {
			for _, e := range es {
				if fi, err := e.Info(); err == nil && fi.Mode().IsRegular() && fi.Mode().Perm()&0o077 != 0 && looseDuringUpload.Load().(string) == "" {
					// secret-bearing = it carries (part of) the database: a log or lock file next to it is nobody's concern
					loose, _ := os.ReadFile(filepath.Join(f.stateDir, e.Name()))
					dbBytes, _ := os.ReadFile(filepath.Join(f.stateDir, "db"))
					if len(loose) >= 64 && len(dbBytes) >= 64 && (bytes.Contains(dbBytes, loose[:64]) || bytes.Contains(loose, dbBytes[len(dbBytes)/2:len(dbBytes)/2+32])) {
						looseDuringUpload.Store(fmt.Sprintf("%s has mode %v (%d bytes, content taken from the database file) while upload attempt %d is being served", e.Name(), fi.Mode().Perm(), fi.Size(), len(f.attempts)))
					}
				}
			}
		}
	}
	b, _ := io.ReadAll(r.Body)
	f.mu.Lock()
	i := len(f.attempts)
	kind := "ok"
	if i < len(f.script) {
		kind = f.script[i]
	}
	f.attempts = append(f.attempts, attempt{at: time.Since(f.t0), body: b, key: r.URL.Path})
	f.mu.Unlock()
	done := func(ok bool) {
		f.mu.Lock()
		f.attempts[i].ok = ok
		f.attempts[i].end = time.Since(f.t0)
		f.mu.Unlock()
	}
	switch kind {
	case "fail":
		done(false)
		return &http.Response{StatusCode: 403, Header: http.Header{}, Body: io.NopCloser(bytes.NewReader([]byte("<Error><Code>AccessDenied</Code><Message>no</Message></Error>"))), Request: r}, nil
	case "neterr":
		done(false)
		return nil, errors.New("connection refused (injected)")
	case "block":
		select {
		case <-r.Context().Done():
			done(false)
			return nil, r.Context().Err()
		case <-f.release:
			done(false)
			return nil, errors.New("released by harness")
		case <-time.After(7*time.Second + 300*time.Millisecond):
		}
	case "slow75", "slow90", "slow130":
		// an upload that takes longer than the one-minute spacing (and not a multiple of it)
		var secs int
		fmt.Sscanf(kind, "slow%d", &secs)
		select {
		case <-r.Context().Done():
			done(false)
			return nil, r.Context().Err()
		case <-f.release:
			done(false)
			return nil, errors.New("released by harness")
		case <-time.After(time.Duration(secs)*time.Second + 300*time.Millisecond):
		}
	case "hang":
		select {
		case <-r.Context().Done():
			done(false)
			return nil, r.Context().Err()
		case <-f.release:
			done(false)
			return nil, errors.New("released by harness")
		}
	}
	done(true)
	return &http.Response{StatusCode: 200, Header: http.Header{"Etag": {`"x"`}}, Body: io.NopCloser(bytes.NewReader(nil)), Request: r}, nil
}

type BackupCase struct {
	Script  []string `json:"script"`
	Writes  []int    `json:"writes"`   // instants of database writes, in units of 100ms (+50ms)
	CancelS int      `json:"cancel_s"` // the server context is cancelled at this second (+20ms)
	OffsetS int      `json:"offset_s"` // the loop starts this many seconds (+7ms) after a whole minute of the (virtual) wall clock
	// kind of the i-th write (missing = put): put | putbig (a value of 1.2 MiB) | activate | delver | del.
	// A write that cannot be made in the state at hand (nothing to activate or delete) is made a put.
	Kinds []string `json:"kinds,omitempty"`
	// the server starts over a database file that already exists (a restart), not a fresh one
	Restarted bool `json:"restarted,omitempty"`
	// with Restarted: the existing file is the same JSON document in another byte layout (1: with a
	// trailing newline, 2: indented) - a file that was restored through an editor or a JSON tool.
	// The server opens it; what it uploads before its first own write is a copy of THAT file.
	Reformat int `json:"reformat,omitempty"`
}

// c17KEK counts the uses of the key-encryption key in the backup scenarios (C05 looks at it).
type c17KEK struct {
	inner tink.AEAD
	calls atomic.Int64
}

func (k *c17KEK) Encrypt(pt, ad []byte) ([]byte, error) { k.calls.Add(1); return k.inner.Encrypt(pt, ad) }
func (k *c17KEK) Decrypt(ct, ad []byte) ([]byte, error) { k.calls.Add(1); return k.inner.Decrypt(ct, ad) }

// kekAfterOpen is set by every run of runC17Bubble: uses of the key-encryption key after Open returned.
var kekAfterOpen atomic.Int64

const retryWithin = 3 * time.Minute

var spin = h.NewSpinWatch("C17", "backup", "periodicBackup", 10, 2*time.Second)

// a timeline that never finishes because a goroutine is blocked for good on a lock that was never
// released (the backup task taking the database lock, say) cannot be waited for: see h.StuckWatch
var c17stuck = h.NewStuckWatch("C17", "backup", "terminates-when-context-cancelled", "the backup timeline (database calls by the program, the backup task, cancellation)", 90*time.Second)

// c17Sink is the audit device of the C17 timelines: fine unless told to fail.
type c17Sink struct{ fail atomic.Bool }

func (s *c17Sink) Write(p []byte) (int, error) {
	if s.fail.Load() {
		return 0, errors.New("injected: audit device unavailable")
	}
	return len(p), nil
}

func runC17(t *testing.T, c BackupCase) (v *h.Violation, info h.Info) {
	dir := caseDir(t)
	defer os.RemoveAll(dir)
	spin.Begin(c)
	c17stuck.Begin(c)
	c17stuck.Enter(0)
	synctest.Test(t, func(t *testing.T) { v = runC17Bubble(dir, c, &info) })
	c17stuck.Leave(0)
	spin.Progress()
	return
}

func runC17Bubble(dir string, c BackupCase, info *h.Info) *h.Violation {
	p := filepath.Join(dir, "db")
	key := dbx.DummyKey()
	counting := &c17KEK{inner: key}
	sink := &c17Sink{}
	if c.Restarted {
		// the server was running before: the file exists and holds a write made just before it stopped
		d0, err := dbx.OpenDiscard(p, key)
		if err != nil {
			return h.V("harness", "open: %v", err)
		}
		if _, err := d0.Put(dbx.Super().DB(), "written-before-the-restart", []byte("x")); err != nil {
			return h.V("harness", "put: %v", err)
		}
		info.Class("server-restarted-over-an-existing-database")
		if c.Reformat > 0 {
			b, err := os.ReadFile(p)
			if err != nil {
				return h.V("harness", "read: %v", err)
			}
			if c.Reformat == 1 {
				b = append(b, '\n')
			} else {
				var buf bytes.Buffer
				if err := json.Indent(&buf, b, "", "  "); err != nil {
					return h.V("harness", "indent: %v", err)
				}
				b = append(buf.Bytes(), '\n')
			}
			if err := os.WriteFile(p, b, 0o600); err != nil {
				return h.V("harness", "write: %v", err)
			}
			info.Class("existing-database-file-in-another-byte-layout")
		}
	}
	d, err := db.Open(p, counting, audit.New(sink))
	if err != nil {
		return h.V("harness", "open: %v", err)
	}
	kekAtOpen := counting.calls.Load()
	defer func() { kekAfterOpen.Store(counting.calls.Load() - kekAtOpen) }()
	if c.OffsetS > 0 {
		time.Sleep(time.Duration(c.OffsetS)*time.Second + 7*time.Millisecond) // the bubble's clock starts on a whole minute
		info.Class("started-off-the-minute")
	}
	looseDuringUpload.Store("")
	fs := &fakeS3{t0: time.Now(), script: c.Script, release: make(chan struct{}), stateDir: dir}
	cl := s3.New(s3.Options{Region: "us-east-1", Credentials: credentials.NewStaticCredentialsProvider("AK", "SK", ""), HTTPClient: fs,
		BaseEndpoint: aws.String("http://s3.test"), UsePathStyle: true, Retryer: aws.NopRetryer{}})
	ctx, cancel := context.WithCancel(context.Background())
	defer cancel()
	done := make(chan struct{})
	t0 := time.Now()
	var vmu sync.Mutex
	versions := map[string]time.Duration{}
	snap := func() {
		b, _ := os.ReadFile(p)
		vmu.Lock()
		if _, ok := versions[string(b)]; !ok {
			versions[string(b)] = time.Since(t0)
		}
		vmu.Unlock()
	}
	snap()
	go func() { defer close(done); server.VerifRunPeriodicBackup(ctx, d, cl, "bkt") }()
	cancelAt := time.Duration(c.CancelS)*time.Second + 20*time.Millisecond
	var writeTimes []time.Duration
	wdone := make(chan struct{})
	su := dbx.Super()
	go func() {
		defer close(wdone)
		for i, w := range c.Writes {
			at := time.Duration(w)*100*time.Millisecond + 50*time.Millisecond
			if dl := at - time.Since(t0); dl > 0 {
				time.Sleep(dl)
			}
			if time.Since(t0) >= cancelAt {
				return
			}
			kind := "put"
			if i < len(c.Kinds) {
				kind = c.Kinds[i]
			}
			done := false
			switch kind {
			case "auditfail":
				// the audit device fails once while a value is being read; afterwards the program lists its
				// secrets. Whatever those two calls report, they return - and the backup task, which needs
				// the database lock now and then, keeps running and still ends when told to.
				sink.fail.Store(true)
				d.Get(su.DB(), "k")
				sink.fail.Store(false)
				d.List(su.DB())
				info.Class("audit-device-failed-once-then-a-list")
				continue
			case "failput":
				// a write the disk refuses (the state directory is unavailable for its duration): the call
				// fails, nothing was written, and so there is nothing new to back up
				var perr error
				if _, err := dbx.Outage(dir, func() { _, perr = d.Put(su.DB(), "k", []byte(fmt.Sprintf("refused-%d-%d", i, w))) }); err != nil {
					return
				}
				if perr != nil {
					info.Class("a-write-the-disk-refused")
					continue
				}
				// (it reported success: then it counts as a write like any other)
				done = true
			case "noop":
				// a call that succeeds without changing anything: the newest value put again (a client
				// repeating a put whose reply it lost), the active version activated, an absent secret
				// deleted. Unless the implementation saves the file all the same (then it IS a write),
				// there is nothing new to back up.
				before, _ := os.ReadFile(p)
				switch in, err := d.Info(su.DB(), "k"); {
				case i%3 == 0 && err == nil && len(in.Versions) > 0:
					if sv, err := d.GetVersion(su.DB(), "k", in.Versions[len(in.Versions)-1]); err == nil {
						d.Put(su.DB(), "k", sv.Value)
					}
				case i%3 == 1 && err == nil:
					d.Activate(su.DB(), "k", in.ActiveVersion)
				default:
					d.Delete(su.DB(), "never-existed")
				}
				if after, _ := os.ReadFile(p); bytes.Equal(before, after) {
					info.Class("a-call-that-succeeds-without-writing")
					continue
				}
				done = true
			case "activate":
				if in, err := d.Info(su.DB(), "k"); err == nil && len(in.Versions) > 0 && in.Versions[len(in.Versions)-1] != in.ActiveVersion {
					done = d.Activate(su.DB(), "k", in.Versions[len(in.Versions)-1]) == nil
				}
			case "delver":
				if in, err := d.Info(su.DB(), "k"); err == nil {
					for _, v := range in.Versions {
						if v != in.ActiveVersion {
							done = d.DeleteVersion(su.DB(), "k", v) == nil
							break
						}
					}
				}
			case "del":
				if _, err := d.Info(su.DB(), "k"); err == nil { // deleting an absent secret succeeds without writing
					done = d.Delete(su.DB(), "k") == nil
				}
			case "putbig":
				_, err := d.Put(su.DB(), "big", bytes.Repeat([]byte(fmt.Sprintf("%d-%d|", i, w)), 1200000/8))
				done = err == nil
				info.Class("database-file-larger-than-1MiB")
			}
			if !done {
				if _, err := d.Put(su.DB(), "k", []byte(fmt.Sprintf("v%d-%d", i, w))); err != nil {
					return
				}
			} else if kind != "putbig" {
				info.Class("last-write-kind-" + kind)
			}
			vmu.Lock()
			writeTimes = append(writeTimes, time.Since(t0))
			vmu.Unlock()
			snap()
		}
	}()
	time.Sleep(cancelAt)
	synctest.Wait()
	cancel()
	// the loop must terminate when the context is cancelled (an upload in flight is aborted by its context)
	select {
	case <-done:
	case <-time.After(10 * time.Minute):
		close(fs.release)
		select {
		case <-done:
		case <-time.After(time.Hour):
		}
		<-wdone
		return h.V("terminates-when-context-cancelled", "the backup task was still running 10 minutes after the server context was cancelled at %v", cancelAt)
	}
	<-wdone
	fs.mu.Lock()
	defer fs.mu.Unlock()
	vmu.Lock()
	defer vmu.Unlock()
	att := fs.attempts
	desc := func() string {
		s := ""
		for i, a := range att {
			s += fmt.Sprintf(" #%d@%v(ok=%v)", i, a.at, a.ok)
		}
		return fmt.Sprintf("attempts:%s; writes: %v; cancel at %v", s, writeTimes, cancelAt)
	}
	if len(att) == 0 || att[0].at != 0 {
		return h.V("first-upload-at-start-up", "no upload at start-up; %s", desc())
	}
	lastOKSample := time.Duration(-1)
	for i, a := range att {
		if _, ok := versions[string(a.body)]; !ok {
			return h.V("upload-is-a-complete-database-file-that-existed", "attempt %d at %v uploaded %d bytes that equal no version of the database file (%d versions existed); %s", i, a.at, len(a.body), len(versions), desc())
		}
		if _, err := model_decode(a.body, key); err != nil {
			return h.V("upload-opens-with-the-servers-key", "attempt %d: the uploaded object does not open with the server's key: %v", i, err)
		}
		if i > 0 && a.at-att[i-1].at < 60*time.Second {
			return h.V("at-most-once-a-minute", "attempts %d and %d are only %v apart; %s", i-1, i, a.at-att[i-1].at, desc())
		}
		if lastOKSample >= 0 {
			justified := false
			for _, w := range writeTimes {
				// (an upload is not an instant: a write at the very moment of the last successful upload
				// may have come after that upload had looked at the write generation - a task that is woken
				// BY the write uploads at that same virtual instant, and a second write of the same instant
				// rightly leads to one more upload)
				if w >= lastOKSample && w <= a.at {
					justified = true
				}
			}
			if !justified {
				return h.V("uploads-only-when-written-since-last-success", "attempt %d at %v: nothing was written since the last successful upload sampled the file at %v; %s", i, a.at, lastOKSample, desc())
			}
		}
		if a.ok {
			lastOKSample = a.at
		}
	}
	// pending change => another attempt in time
	last := att[len(att)-1]
	pending := !last.ok
	firstPendingWrite := time.Duration(1 << 62)
	for _, w := range writeTimes {
		if w > last.at {
			pending = true
			if w < firstPendingWrite {
				firstPendingWrite = w
			}
		}
	}
	if pending {
		base := last.end
		if last.end == 0 {
			base = last.at
		}
		if last.ok && firstPendingWrite > base {
			base = firstPendingWrite
		}
		// The property says a failed upload "is retried" and that attempts are "at most once a
		// minute"; it gives no upper bound for the pause. The check reads "is retried" as "within
		// three minutes" - a loop that pauses a minute plus some jitter is as good as one that
		// pauses exactly a minute.
		due := base + retryWithin
		if cancelAt > due {
			return h.V("failed-or-pending-upload-is-retried", "a change was pending after the last attempt (ok=%v, ended %v) but no further attempt came by %v (due by %v); %s", last.ok, last.end, cancelAt, due, desc())
		}
	} else {
		cur, _ := os.ReadFile(p)
		if !bytes.Equal(last.body, cur) {
			return h.V("newest-backup-equals-current-file", "writes stopped and the last upload succeeded, yet the newest backup differs from the current file; %s", desc())
		}
		info.Class("converged")
	}
	// classification
	sort.Slice(writeTimes, func(i, j int) bool { return writeTimes[i] < writeTimes[j] })
	idle := cancelAt > 61*time.Second && len(att) >= 1
	prev := time.Duration(0)
	for _, w := range append(append([]time.Duration{}, writeTimes...), cancelAt) {
		if w-prev > 61*time.Second {
			info.Class("idle-gap>1min")
			idle = true
		}
		prev = w
	}
	failed, racing := false, false
	for _, k := range c.Script {
		if strings.HasPrefix(k, "slow") {
			info.Class("upload-longer-than-a-minute")
		}
	}
	for _, a := range att {
		if !a.ok {
			failed = true
		}
		for _, w := range writeTimes {
			if w > a.at && w < a.end {
				racing = true
			}
		}
	}
	if failed {
		info.Class("failed-upload")
	}
	if racing {
		info.Class("write-racing-an-upload")
	}
	info.NonTrivial = idle || failed || racing
	return nil
}

func genBackupCase(rt *rapid.T) BackupCase {
	c := BackupCase{
		Script:  rapid.SliceOfN(rapid.SampledFrom([]string{"ok", "ok", "ok", "fail", "neterr", "block", "hang", "slow75", "slow90", "slow130"}), 0, 6).Draw(rt, "script"),
		CancelS: rapid.SampledFrom([]int{0, 1, 30, 59, 61, 100, 125, 200, 400, 700, 1500, 0, 1, 30, 59, 61, 100, 125, 200, 400, 700, 1500, 90_000, 200_000}).Draw(rt, "cancel"),
		OffsetS: rapid.SampledFrom([]int{0, 0, 13, 45, 59}).Draw(rt, "offset"),
	}
	ws := rapid.SliceOfN(rapid.IntRange(0, 7000), 0, 8).Draw(rt, "writes")
	if rapid.IntRange(0, 3).Draw(rt, "burst") == 0 && len(ws) > 0 {
		b := ws[0]
		for i := 0; i < 4; i++ {
			ws = append(ws, b+i)
		}
	}
	sort.Ints(ws)
	c.Writes = ws
	if rapid.IntRange(0, 1).Draw(rt, "kinds") == 0 {
		pool := []string{"put", "put", "activate", "delver", "delver", "del", "failput", "failput", "auditfail", "noop", "noop"}
		if rapid.IntRange(0, 5).Draw(rt, "big") == 0 {
			pool = append(pool, "putbig") // (costly: every later save rewrites more than a megabyte)
		}
		c.Kinds = rapid.SliceOfN(rapid.SampledFrom(pool), len(ws), len(ws)).Draw(rt, "writekinds")
	}
	c.Restarted = rapid.IntRange(0, 2).Draw(rt, "restarted") == 0
	if c.Restarted {
		c.Reformat = rapid.SampledFrom([]int{0, 0, 1, 2}).Draw(rt, "reformat")
	}
	return c
}

var c17 = &h.Campaign[BackupCase]{
	Prop: "C17", Sub: "backup",
	Rule: "rapid + testing/synctest: timelines over virtual time of database writes (puts, activations, delete-versions, deletes, a 1.2 MiB value; single, bursts, long idle gaps, during uploads), an upload outcome script (ok / HTTP 403 / network error / slow then ok / hangs until the request context ends) served by an in-memory HTTP client behind a real s3.Client, and cancellation at a generated instant; the real periodic backup loop runs through the build-tagged hook; every database file version is snapshotted by the harness; a pending change (failed upload, or a write after the last attempt) must be attempted again within three minutes - the check's reading of 'is retried', for which the property gives no bound; a watchdog outside the bubble reports a loop that stays runnable without virtual progress (>= 10 samples over >= 2 s real time); idle periods of more than one and more than two days, a server restarted over a database file in another byte layout (trailing newline, indented); non-trivial = timeline with an idle gap > 1 minute, a failed upload, or a write racing an upload; distinct by timeline",
	Quick: 1500, Thorough: 600000,
	Gen:   genBackupCase,
	Run:   runC17,
}

// C05 (the backup task's share): "the key-encryption key is consulted only when the database is
// opened or created ... so a running server does not depend on the key service" - the periodic
// backup is part of the running server. The same timelines as C17; only the key counter is judged.
var c05backup = &h.Campaign[BackupCase]{
	Prop: "C05", Sub: "backup-needs-no-kek",
	Rule: "rapid + testing/synctest: the C17 backup timelines (writes of every kind, upload outcomes, cancellation) run with a counting key-encryption key; after Open has returned the key must not be used again by the backup task or anything else; at the start of every upload attempt every file in the state directory that carries database content must be readable and writable by its owner only (umask 022); non-trivial = at least one write and a task that lived longer than a minute; distinct by timeline",
	Quick: 300, Thorough: 20000,
	Gen:   genBackupCase,
	Run: func(t *testing.T, c BackupCase) (*h.Violation, h.Info) {
		_, info := runC17(t, c) // what C17 itself has to say is reported by C17's own campaign
		info.NonTrivial = len(c.Writes) > 0 && c.CancelS >= 61
		if l, _ := looseDuringUpload.Load().(string); l != "" {
			return h.V("files-readable-by-owner-only", "with the periodic backup running the state directory held a file that others can read: %s", l), info
		}
		if n := kekAfterOpen.Load(); n != 0 {
			return h.V("kek-only-at-open", "with the periodic backup running (script %v, %d writes, cancelled after %ds) the key-encryption key was used %d time(s) after Open had returned", c.Script, len(c.Writes), c.CancelS, n), info
		}
		return nil, info
	},
}

func TestC05BackupNeedsNoKEK(t *testing.T) { c05backup.Check(t) }

func init() { c17.Register(); c05backup.Register(); log.SetOutput(io.Discard) }

func TestC17Backup(t *testing.T) { c17.Check(t) }
