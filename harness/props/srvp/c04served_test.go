package srvp

import (
	"errors"
	"fmt"
	"io"
	"os"
	"path/filepath"
	"sync/atomic"
	"testing"

	"github.com/tailscale/setec/audit"
	"github.com/tailscale/setec/db"
	"pgregory.net/rapid"
	"verifharness/dbx"
	"verifharness/h"
	"verifharness/model"
)

// ---- C04: what the RUNNING SERVER serves after a save failed ------------------------------------
//
// The fault engine (faultp) decides C04 for the database package under every system-call fault.
// This campaign looks at the layer above it: requests arrive through the registered HTTP handlers,
// the save behind a generated subset of the mutating requests fails (the state directory is
// unavailable while the request is served), the request must report an error, and afterwards the
// server - through every read path of its API, conditional gets included - serves exactly the
// pre-call state; later requests succeed normally, and a restart finds the state the model holds.

type ServedCase struct {
	Ops  []dbx.Op `json:"ops"`
	Fail []bool   `json:"fail"` // per op: if the request would write, its save fails
	// per op: the server is restarted right before the request (so a failing save may be the FIRST save
	// of the new process)
	Restart []bool `json:"restart,omitempty"`
	// per op: the audit device fails while the request is served (another file-system step of the
	// call); the server is restarted afterwards, because the audit writer does not recover
	AuditFail []bool `json:"audit_fail,omitempty"`
}

// c04Sink is the audit device of these histories: fine unless told to fail (at Sync, after the record
// was accepted - the latest point a file-system step of the call can fail).
type c04Sink struct{ fail atomic.Bool }

func (s *c04Sink) Write(p []byte) (int, error) { return len(p), nil }
func (s *c04Sink) Sync() error {
	if s.fail.Load() {
		return errors.New("injected: fsync of the audit log failed")
	}
	return nil
}

func runC04Served(t *testing.T, c ServedCase) (*h.Violation, h.Info) {
	var info h.Info
	dir := caseDir(t)
	defer os.RemoveAll(dir)
	state := filepath.Join(dir, "state")
	os.MkdirAll(state, 0o700)
	path := filepath.Join(state, "db")
	su := dbx.Super()
	var sink *c04Sink
	var ht *dbx.HTTPTarget
	start := func() *h.Violation {
		sink = &c04Sink{}
		d, err := db.Open(path, dbx.DummyKey(), audit.New(sink))
		if err != nil {
			return h.V("file-holds-the-acknowledged-state", "(re)start: %v", err)
		}
		if ht, err = dbx.NewHTTP(d, []dbx.CallerM{su}); err != nil {
			return h.V("harness", "server.New: %v", err)
		}
		return nil
	}
	if v := start(); v != nil {
		return v, info
	}
	tr := dbx.NewTracker()
	tr.Wire = true
	probe := map[string][]uint32{}
	failures := 0
	for i, op := range c.Ops {
		if i < len(c.Restart) && c.Restart[i] {
			if v := start(); v != nil {
				return v, info
			}
			info.Class("server-restarted-before-a-request")
		}
		ver := tr.Resolve(op)
		if i < len(c.AuditFail) && c.AuditFail[i] && op.Mutating() {
			// the audit device fails during this request: whatever the request reports, a reported
			// error means the pre-call state is what is served (and stored) afterwards
			shadow := tr.Clone()
			want := shadow.Expect(su.Rules, op, ver)
			sink.fail.Store(true)
			got := ht.Do(su, op, ver)
			sink.fail.Store(false)
			info.Class("audit-device-failed-during-" + op.Kind)
			if got.Class == model.OK && want.Class == model.OK {
				tr = shadow // it went through
			}
			failures++
			if v := start(); v != nil {
				return v, info
			}
			served, err := dbx.DumpVia(ht, su, probe)
			if err != nil {
				return h.V("served-state-is-the-pre-call-state", "step %d %s reported %s while the audit device was failing; after a restart: %v", i, op, got, err), info
			}
			if diff := dbx.DumpDiff(served, tr.M); diff != "" {
				return h.V("served-state-is-the-pre-call-state", "step %d %s reported %s while the audit device was failing (a call that reports an error did not happen); after a restart the server serves: %s", i, op, got, diff), info
			}
			continue
		}
		failing := false
		if i < len(c.Fail) && c.Fail[i] && op.Mutating() {
			shadow := tr.Clone()
			b0 := shadow.M.Render(true)
			if w := shadow.Expect(su.Rules, op, ver); w.Class == model.OK && shadow.M.Render(true) != b0 {
				failing = true
			}
		}
		var got dbx.Result
		have := false
		if failing {
			held, err := dbx.Outage(state, func() { got = ht.Do(su, op, ver) })
			if err != nil {
				return h.V("harness", "%v", err), info
			}
			have, failing = true, held // (not held: the code put the directory back itself - an ordinary request)
		}
		if !failing {
			want := tr.Expect(su.Rules, op, ver)
			if !have {
				got = ht.Do(su, op, ver)
			}
			if diff := dbx.Compare(got, want); diff != "" {
				if failures == 0 {
					return nil, info // no fault yet: C02 / C08 report this
				}
				return h.V("later-calls-succeed-normally", "step %d %s, %d request(s) after one whose save failed: %s", i, op, failures, diff), info
			}
			continue
		}
		pre := tr.M.Render(false)
		failures++
		info.Class("save-failed-during-" + op.Kind)
		if got.Class == model.OK {
			return h.V("io-error-is-reported", "step %d %s: the save could not be written (state directory unavailable) yet the request reports success: %s", i, op, got), info
		}
		probe[op.Name] = append(probe[op.Name], ver)
		if s := tr.M[op.Name]; s != nil {
			probe[op.Name] = append(probe[op.Name], s.Latest, s.Latest+1, s.Latest+2)
		}
		served, err := dbx.DumpVia(ht, su, probe)
		if err != nil {
			return h.V("served-state-is-the-pre-call-state", "step %d %s failed in its save (%s); reading the state back through the API afterwards: %v", i, op, got, err), info
		}
		if diff := dbx.DumpDiff(served, tr.M); diff != "" {
			return h.V("served-state-is-the-pre-call-state", "step %d %s failed in its save (%s); the server now serves something else than the pre-call state %s: %s", i, op, got, pre, diff), info
		}
	}
	info.NonTrivial = failures > 0
	if failures >= 2 {
		info.Class("several-failed-saves")
	}
	// the file holds what the model holds
	d2, err := db.Open(path, dbx.DummyKey(), audit.New(io.Discard))
	if err != nil {
		return h.V("file-holds-the-acknowledged-state", "reopening after %d failed saves: %v", failures, err), info
	}
	dump, err := dbx.Dump(d2)
	if err != nil || dbx.DumpDiff(dump, tr.M) != "" {
		return h.V("file-holds-the-acknowledged-state", "after %d failed saves a restart finds: %v %s", failures, err, dbx.DumpDiff(dump, tr.M)), info
	}
	return nil, info
}

var c04served = &h.Campaign[ServedCase]{
	Prop: "C04", Sub: "served-after-failed-save",
	Rule:  "rapid: a history of 1-30 calls (all seven operations, generated names / values / version selectors) sent through the registered HTTP handlers + setec.Client; behind a generated subset of the requests that would write, the save fails (state directory renamed away while the request is served); such a request must not report success, and right afterwards the complete state read back THROUGH THE API (list, info, get, every version, conditional gets naming every existing version, the version the failed request named, and the next ones) equals the pre-call state; later requests agree with the model; a restart finds the model's state; non-trivial = at least one save failed; distinct by scenario",
	Quick: 700, Thorough: 60000,
	Gen: func(rt *rapid.T) ServedCase {
		ops := dbx.GenHistory(rt, 1, 30)
		fail := make([]bool, len(ops))
		p := rapid.SampledFrom([]int{2, 3, 6}).Draw(rt, "failevery")
		for i := range fail {
			q := p
			if ops[i].Kind != "put" {
				q = 2 // puts are the bulk of every history: let the rarer kinds of write fail more often
			}
			fail[i] = rapid.IntRange(0, q-1).Draw(rt, fmt.Sprintf("fail%d", i)) == 0
		}
		c := ServedCase{Ops: ops, Fail: fail}
		if rapid.Bool().Draw(rt, "with-restarts") {
			c.Restart = make([]bool, len(ops))
			for i := range c.Restart {
				c.Restart[i] = rapid.IntRange(0, 3).Draw(rt, fmt.Sprintf("restart%d", i)) == 0
			}
		}
		if rapid.IntRange(0, 2).Draw(rt, "with-audit-faults") == 0 {
			c.AuditFail = make([]bool, len(ops))
			for i := range c.AuditFail {
				c.AuditFail[i] = rapid.IntRange(0, 5).Draw(rt, fmt.Sprintf("auditfail%d", i)) == 0
			}
		}
		return c
	},
	Run: runC04Served,
}

func init() { c04served.Register() }

func TestC04ServedAfterFailedSave(t *testing.T) { c04served.Check(t) }
