package dbp

import (
	"bytes"
	"context"
	"encoding/json"
	"errors"
	"fmt"
	"io"
	"net/http"
	"os"
	"path/filepath"
	"strings"
	"sync/atomic"
	"syscall"
	"testing"

	"github.com/tailscale/setec/audit"
	"github.com/tailscale/setec/db"
	"github.com/tailscale/setec/server"
	"github.com/tink-crypto/tink-go/v2/tink"
	"pgregory.net/rapid"
	"tailscale.com/client/tailscale/apitype"
	"verifharness/dbx"
	"verifharness/h"
	"verifharness/model"
)

// ---- C05: confidentiality and tamper evidence at rest ---------------------------

// countingKEK wraps a KEK, counts its use and can be poisoned.
type countingKEK struct {
	inner  tink.AEAD
	calls  atomic.Int64
	poison atomic.Bool
}

func (k *countingKEK) Encrypt(pt, ad []byte) ([]byte, error) {
	k.calls.Add(1)
	if k.poison.Load() {
		return nil, errors.New("KMS unreachable (injected)")
	}
	return k.inner.Encrypt(pt, ad)
}

func (k *countingKEK) Decrypt(ct, ad []byte) ([]byte, error) {
	k.calls.Add(1)
	if k.poison.Load() {
		return nil, errors.New("KMS unreachable (injected)")
	}
	return k.inner.Decrypt(ct, ad)
}

func jsonEscaped(v []byte) []byte {
	b, _ := json.Marshal(string(v))
	return b[1 : len(b)-1]
}

// findMarker reports which marker (in any trivial encoding) occurs in hay.
func findMarker(hay []byte, markers [][]byte) string {
	if m := containsAny(hay, markers); m != "" {
		return m
	}
	for _, v := range markers {
		if len(v) >= 6 {
			if e := jsonEscaped(v); !bytes.Equal(e, v) && bytes.Contains(hay, e) {
				return string(v)
			}
		}
	}
	return ""
}

type RestCase struct {
	Ops    []dbx.Op `json:"ops"` // names and values are high-entropy markers
	Poison bool     `json:"poison"`
	// indices of calls during which the state directory is unavailable, so that a save fails and the
	// server has to undo the change in memory - still without the key-encryption key
	FailSave []int `json:"fail_save,omitempty"`
	// the calls go through the registered HTTP handlers (an authorized request that fails - reserved
	// name, empty name, failed save - passes through more server code than one that succeeds)
	HTTP bool `json:"http,omitempty"`
}

func genMarker(rt *rapid.T, label string) []byte {
	b := rapid.SliceOfN(rapid.Byte(), 16, 24).Draw(rt, label)
	switch rapid.IntRange(0, 3).Draw(rt, label+"-kind") {
	case 0: // printable, JSON-special
		const alpha = "abcdefghijklmnopqrstuvwxyz0123456789\"\\/<>&\n\t"
		for i := range b {
			b[i] = alpha[int(b[i])%len(alpha)]
		}
	case 1: // hex-looking text
		b = []byte(fmt.Sprintf("%x", b[:12]))
	}
	return b
}

func genRestCase(rt *rapid.T) RestCase {
	nNames := rapid.IntRange(1, 3).Draw(rt, "nnames")
	names := make([]string, nNames)
	for i := range names {
		names[i] = "sec-" + fmt.Sprintf("%x", genMarker(rt, "name"))[:20]
		if rapid.Bool().Draw(rt, "slash") {
			names[i] = "prod/" + names[i]
		}
	}
	c := RestCase{Poison: rapid.Bool().Draw(rt, "poison"), HTTP: rapid.IntRange(0, 2).Draw(rt, "http") == 0}
	// names under which a put is authorized and fails
	names = append(names, "", "_internal/"+names[0])
	if rapid.IntRange(0, 2).Draw(rt, "withoutage") == 0 {
		c.FailSave = rapid.SliceOfN(rapid.IntRange(0, 13), 1, 3).Draw(rt, "failsave")
	}
	c.Ops = rapid.SliceOfN(rapid.Custom(func(rt *rapid.T) dbx.Op {
		o := dbx.GenOp(rt, names, []string{"put", "put", "put", "activate", "delver", "del", "get", "getver", "list"}, 1)
		if o.Kind == "put" {
			o.Val = genMarker(rt, "value")
			if rapid.IntRange(0, 3).Draw(rt, "short") == 0 {
				// a short secret (a PIN, an 8-byte key): anything derived from "the first few bytes"
				// of a value is the whole value here. Raw bytes only (text this short could occur in
				// a time stamp or a record number by accident), masked so that shrinking towards
				// zero bytes still leaves a marker that occurs nowhere by chance.
				b := rapid.SliceOfN(rapid.Byte(), 8, 8).Draw(rt, "short-value")
				for i, m := range []byte{0xd3, 0x6a, 0x91, 0x4e, 0xb7, 0x2c, 0xf8, 0x15} {
					b[i] ^= m
				}
				o.Val = b
			}
		}
		return o
	}), 3, 14).Draw(rt, "ops")
	return c
}

// scanningLog is an audit log file that looks around before it takes each record.
type scanningLog struct {
	f    *os.File
	look func()
}

func (s *scanningLog) Write(p []byte) (int, error) { s.look(); return s.f.Write(p) }
func (s *scanningLog) Sync() error                 { return s.f.Sync() }
func (s *scanningLog) Close() error                { return s.f.Close() }

func noGroupOther(p string) (os.FileMode, bool) {
	st, err := os.Stat(p)
	if err != nil {
		return 0, false
	}
	return st.Mode().Perm(), st.Mode().Perm()&0o077 == 0
}

func runC05Scan(t *testing.T, c RestCase) (*h.Violation, h.Info) {
	var info h.Info
	old := syscall.Umask(0)
	defer syscall.Umask(old)
	dir := filepath.Join(caseDir(t), "state")
	os.MkdirAll(dir, 0o700)
	defer os.RemoveAll(filepath.Dir(dir))
	dbPath, logPath := filepath.Join(dir, "database"), filepath.Join(dir, "audit.log")
	logFile, err := os.OpenFile(logPath, os.O_WRONLY|os.O_APPEND|os.O_CREATE, 0o600)
	if err != nil {
		return h.V("harness", "audit: %v", err), info
	}
	// the audit device looks around the state directory every time a record arrives - that is, while
	// a request is being served: whatever the server keeps there at that moment is scanned too
	var values [][]byte
	duringRequest := ""
	aw := audit.New(&scanningLog{f: logFile, look: func() {
		ents, _ := os.ReadDir(dir)
		for _, e := range ents {
			if e.Name() == "audit.log" || duringRequest != "" {
				continue
			}
			if data, err := os.ReadFile(filepath.Join(dir, e.Name())); err == nil {
				if m := findMarker(data, values); m != "" {
					duringRequest = fmt.Sprintf("file %s (%d bytes) contains the value %q in plain or trivially encoded form", e.Name(), len(data), m)
				}
			}
		}
	}})
	defer aw.Close()
	inner, _ := newRealKEK()
	kek := &countingKEK{inner: inner}
	var d *db.DB
	var srv *server.Server
	mux := http.NewServeMux()
	if c.HTTP {
		// as the server binary does it: the server opens the database itself and is given the audit writer
		srv, err = server.New(context.Background(), server.Config{DBPath: dbPath, Key: kek, AuditLog: aw, Mux: mux,
			WhoIs: func(context.Context, string) (*apitype.WhoIsResponse, error) { return dbx.WhoIsOf(dbx.Super()), nil }})
	} else {
		d, err = db.Open(dbPath, kek, aw)
	}
	if err != nil {
		return h.V("harness", "open: %v", err), info
	}
	// what the server serves: asked of the handle we hold, or - when the server owns the handle - read
	// from the file it keeps (with the plain key: the harness's own reads are not the server's)
	served := func() (model.KV, error) {
		if d != nil {
			return dbx.Dump(d)
		}
		d2, err := dbx.OpenDiscard(dbPath, inner)
		if err != nil {
			return nil, err
		}
		return dbx.Dump(d2)
	}
	openCalls := kek.calls.Load()
	if openCalls == 0 {
		return h.V("harness", "KEK not consulted at creation?"), info
	}
	if c.Poison {
		kek.poison.Store(true)
		info.Class("kek-poisoned-after-open")
	}
	su := dbx.Super()
	var tgt dbx.Target = dbx.DBTarget{D: d}
	tr := dbx.NewTracker()
	if c.HTTP {
		ht := &dbx.HTTPTarget{Mux: mux, AddrOf: dbx.AddrOf}
		if len(c.Ops)%2 == 1 {
			ht.Chunked = true // bodies without a declared length, as any HTTP/1.1 client may send them
			info.Class("request-bodies-without-declared-length")
		}
		tgt = ht
		tr.Wire = true
		info.Class("through-http-handlers")
	}
	var names [][]byte
	seenName := map[string]bool{}
	saves := 0
	for i, op := range c.Ops {
		ver := tr.Resolve(op)
		outage := false
		for _, f := range c.FailSave {
			if f == i && wouldSave(tr.M, op, ver) {
				outage = true
			}
		}
		if op.Kind == "put" {
			values = append(values, op.Val) // also of puts that fail: their bytes must not turn up anywhere either
		}
		var early *dbx.Result
		if outage {
			var got dbx.Result
			held, err := dbx.Outage(dir, func() { got = tgt.Do(su, op, ver) })
			if err != nil {
				return h.V("harness", "%v", err), info
			}
			early, outage = &got, held // (not held: the code put the directory back itself - an ordinary call)
		}
		if outage {
			got := *early
			info.Class("save-failed-and-was-undone")
			if got.Class == model.OK {
				return h.V("harness", "step %d %s reported success while the state directory was unavailable (C03/C04 decide that)", i, op), info
			}
			if n := kek.calls.Load(); n != openCalls {
				return h.V("kek-only-at-open", "step %d %s: its save failed, and while undoing the change the key-encryption key was used %d more time(s) after Open returned", i, op, n-openCalls), info
			}
			if dump, err := served(); err != nil || dbx.DumpDiff(dump, tr.M) != "" {
				clause := "result-equals-model"
				if c.Poison {
					clause = "running-server-independent-of-kek"
				}
				return h.V(clause, "step %d %s: after its save failed the server holds %v %s (KEK poisoned=%v)", i, op, err, dbx.DumpDiff(dump, tr.M), c.Poison), info
			}
		} else {
			want := tr.Expect(su.Rules, op, ver)
			var got dbx.Result
			if early != nil {
				got = *early
			} else {
				got = tgt.Do(su, op, ver)
			}
			if diff := dbx.Compare(got, want); diff != "" {
				clause := "result-equals-model"
				if c.Poison {
					clause = "running-server-independent-of-kek"
				}
				return h.V(clause, "step %d %s (KEK poisoned=%v): %s", i, op, c.Poison, diff), info
			}
			if op.Mutating() && got.Class == model.OK {
				saves++
			}
		}
		if op.Name != "" && !seenName[op.Name] && !strings.HasPrefix(op.Name, "_internal/") {
			seenName[op.Name] = true
			names = append(names, []byte(op.Name))
		}
		if srv != nil && i%2 == 0 {
			_ = srv.Metrics().String() // the monitoring system scrapes the server's metrics
		}
		if n := kek.calls.Load(); n != openCalls {
			return h.V("kek-only-at-open", "step %d %s: the key-encryption key was used %d more time(s) after Open returned (the server's metrics are rendered after every other call)", i, op, n-openCalls), info
		}
		if duringRequest != "" {
			return h.V("no-secret-value-in-any-file", "while step %d %s was being served (seen from the audit device): %s", i, op, duringRequest), info
		}
		// scan every file in the state directory
		ents, _ := os.ReadDir(dir)
		for _, e := range ents {
			p := filepath.Join(dir, e.Name())
			data, err := os.ReadFile(p)
			if err != nil {
				continue
			}
			if m := findMarker(data, values); m != "" {
				return h.V("no-secret-value-in-any-file", "after step %d %s: file %s contains stored value %q in plain or trivially encoded form", i, op, e.Name(), m), info
			}
			if e.Name() != "audit.log" {
				if m := findMarker(data, names); m != "" {
					return h.V("no-secret-name-in-database-file", "after step %d %s: file %s contains secret name %q", i, op, e.Name(), m), info
				}
			}
			if mode, ok := noGroupOther(p); !ok {
				return h.V("owner-only-permissions", "after step %d %s: file %s has mode %o (umask 0)", i, op, e.Name(), mode), info
			}
		}
	}
	// The file disappears or is damaged underneath the running server; the next write puts a complete
	// file back - from what the server holds in memory, without going back to the key service.
	if kind := len(c.Ops) % 5; kind != 0 && len(names) > 0 {
		switch kind {
		case 4:
			// another instance (a second server started by mistake, a restore tool) opens the same file
			// with the same key and saves: the running server's next write is still its own business
			if d2, err := dbx.OpenDiscard(dbPath, inner); err == nil {
				d2.Put(su.DB(), "written-by-another-instance", []byte("x"))
			}
		case 1:
			os.Remove(dbPath)
		case 2:
			os.WriteFile(dbPath, []byte("{\"Version\":1,\"garbage\":true"), 0o600)
		case 3:
			if b, err := os.ReadFile(dbPath); err == nil {
				os.WriteFile(dbPath, b[:len(b)/2], 0o600)
			}
		}
		op := dbx.Op{Kind: "put", Name: string(names[0]), Val: []byte("written-after-the-file-was-damaged")}
		want := tr.Expect(su.Rules, op, 0)
		got := tgt.Do(su, op, 0)
		if n := kek.calls.Load(); n != openCalls {
			return h.V("kek-only-at-open", "the database file was %s underneath the running server; the next write used the key-encryption key %d more time(s) after Open returned (result %s)", []string{"", "removed", "overwritten with garbage", "truncated", "replaced by another instance's save"}[kind], n-openCalls, got), info
		}
		if diff := dbx.Compare(got, want); diff != "" {
			clause := "result-equals-model"
			if c.Poison {
				clause = "running-server-independent-of-kek"
			}
			return h.V(clause, "write after the database file was %s (KEK poisoned=%v): %s", []string{"", "removed", "overwritten with garbage", "truncated", "replaced by another instance's save"}[kind], c.Poison, diff), info
		}
		info.Class("file-damaged-under-the-running-server")
	}
	// a different key must not open it, and must leave it alone - also after the file has been
	// opened with the right key by this very process (no key material may be remembered)
	if rapid := len(c.Ops)%2 == 0; rapid {
		if _, err := dbx.OpenDiscard(dbPath, inner); err != nil {
			return h.V("reopen-succeeds", "reopen with the right key: %v", err), info
		}
		info.Class("foreign-key-after-a-proper-reopen")
	}
	before, _ := statFile(dbPath)
	other, _ := newRealKEK()
	if d2, err := dbx.OpenDiscard(dbPath, other); err == nil {
		dump, _ := dbx.Dump(d2)
		return h.V("opens-only-with-its-own-key", "database opened with a foreign key-encryption key; contents %v", dump), info
	}
	if after, err := statFile(dbPath); err != nil || !before.same(after) {
		return h.V("failed-open-leaves-file-untouched", "opening with a foreign key changed the file (%v)", err), info
	}
	// and the right key still opens it with the model's contents
	d3, err := dbx.OpenDiscard(dbPath, inner)
	if err != nil {
		return h.V("reopen-succeeds", "reopen with the right key: %v", err), info
	}
	dump, err := dbx.Dump(d3)
	if err != nil || dbx.DumpDiff(dump, tr.M) != "" {
		return h.V("reopen-equals-model", "reopen: %v %s", err, dbx.DumpDiff(dump, tr.M)), info
	}
	info.NonTrivial = saves >= 3
	if info.NonTrivial {
		info.Class("scan-with>=3-saves")
	}
	if len(c.FailSave) > 0 {
		// Saves that fail while the database file stays READABLE: the file gets a name so long that no
		// temporary can be created next to it (the temporary's name would exceed NAME_MAX). Whatever the
		// server does to get back to the pre-call state, it does it without the key-encryption key.
		long := filepath.Join(dir, strings.Repeat("n", 250))
		if err := os.Rename(dbPath, long); err != nil {
			return h.V("harness", "rename to a long name: %v", err), info
		}
		kek2 := &countingKEK{inner: inner}
		d4, err := db.Open(long, kek2, audit.New(io.Discard))
		if err != nil {
			// an implementation that refuses to open a database it could never save to is within its
			// rights (no clause says a file under such a name must open): this way of making saves fail
			// is then not available, nothing more
			os.Rename(long, dbPath)
			info.Class("long-name-trick-not-available")
			return nil, info
		}
		base := kek2.calls.Load()
		t4 := dbx.DBTarget{D: d4}
		probes := []dbx.Op{{Kind: "put", Name: "probe-after-open", Val: []byte("p1")}}
		for _, n := range tr.M.Names() {
			probes = append(probes, dbx.Op{Kind: "put", Name: n, Val: []byte("another value")}, dbx.Op{Kind: "del", Name: n})
			break
		}
		for _, op := range probes {
			got := t4.Do(su, op, 0)
			if got.Class == model.OK {
				return h.V("harness", "%s succeeded although no temporary can be created next to a 250-character file name", op), info
			}
			if n := kek2.calls.Load(); n != base {
				return h.V("kek-only-at-open", "%s: its save failed (the database file itself stayed readable), and the key-encryption key was used %d more time(s) after Open returned", op, n-base), info
			}
			if dump, err := dbx.Dump(d4); err != nil || dbx.DumpDiff(dump, tr.M) != "" {
				return h.V("reopen-equals-model", "%s failed, yet the server now holds %v %s", op, err, dbx.DumpDiff(dump, tr.M)), info
			}
		}
		info.Class("saves-fail-while-the-file-stays-readable")
	}
	return nil, info
}

var c05scan = &h.Campaign[RestCase]{
	Prop: "C05", Sub: "scan",
	Rule:  "rapid: histories (3-14 calls) whose names and values are >=16-byte high-entropy markers (binary, JSON-special printable, hex-looking), state directory laid out as the server does (database + audit.log via audit.NewFile), real AES-256-GCM KEK behind a counting/poisonable wrapper, umask 0; after EVERY call every file is scanned for every value (raw, hex both cases, base64 std/url at all three alignments, JSON-escaped) and, except audit.log, for every name; mode bits checked; KEK call count must not move after Open (with the KEK poisoned in half the cases); finally a foreign KEK must fail to open and leave the file untouched; a quarter of the values are short (8 raw bytes: anything derived from a value's first bytes is the whole value); non-trivial = >= 3 successful saves scanned; distinct by scenario",
	Quick: 2000, Thorough: 300000,
	Gen: genRestCase,
	Run: runC05Scan,
}

// ---- tampering ---------------------------------------------------------------

type TamperCase struct {
	Ops   []dbx.Op `json:"ops"`   // builds database A
	OpsB  []dbx.Op `json:"ops_b"` // builds database B (same KEK) for field mixtures
	Kind  string   `json:"kind"`  // bit | truncate | mix | all-bits | all-prefixes
	Pos   int      `json:"pos"`   // bit index or prefix length, taken modulo the file size
	MixFr [3]bool  `json:"mix"`   // Version, DEK, DB taken from B?
	// a complete, valid, OLDER image of the same database lies next to the file under the name a
	// save that was interrupted between fsync and rename would have left behind
	Leftover bool `json:"leftover,omitempty"`
}

// leftoverImage, when set, is written as "<file>.tmp<digits>" next to every file tryOpen opens.
var leftoverImage []byte

func buildDB(path string, key tink.AEAD, ops []dbx.Op) (*dbx.Tracker, error) {
	d, err := dbx.OpenDiscard(path, key)
	if err != nil {
		return nil, err
	}
	tr := dbx.NewTracker()
	su := dbx.Super()
	for _, op := range ops {
		ver := tr.Resolve(op)
		want := tr.Expect(su.Rules, op, ver)
		if diff := dbx.Compare(dbx.DBTarget{D: d}.Do(su, op, ver), want); diff != "" {
			return nil, fmt.Errorf("%s: %s", op, diff)
		}
	}
	return tr, nil
}

// tryOpen opens data as a database file; returns (opened, rendered dump, panic message).
func tryOpen(dir string, data []byte, key tink.AEAD) (opened bool, dump string, problem string) {
	p := filepath.Join(dir, "tampered")
	os.WriteFile(p, data, 0o600)
	defer os.Remove(p)
	if leftoverImage != nil {
		lp := p + ".tmp2716057341"
		os.WriteFile(lp, leftoverImage, 0o600)
		defer os.Remove(lp)
	}
	defer func() {
		if r := recover(); r != nil {
			problem = fmt.Sprintf("panic: %v", r)
		}
	}()
	d, err := dbx.OpenDiscard(p, key)
	if err != nil {
		now, _ := os.ReadFile(p)
		if !bytes.Equal(now, data) {
			return false, "", "a failed Open modified the file"
		}
		return false, "", ""
	}
	kv, err := dbx.Dump(d)
	if err != nil {
		return true, "", "opened but inconsistent: " + err.Error()
	}
	return true, kv.Render(false), ""
}

func runC05Tamper(t *testing.T, c TamperCase) (*h.Violation, h.Info) {
	var info h.Info
	dir := caseDir(t)
	defer os.RemoveAll(dir)
	key, _ := newRealKEK()
	pa := filepath.Join(dir, "a")
	tra, err := buildDB(pa, key, c.Ops)
	if err != nil {
		return h.V("harness", "build A: %v", err), info
	}
	orig, _ := os.ReadFile(pa)
	want := tra.M.Render(false)
	leftoverImage = nil
	if c.Leftover && len(c.Ops) > 0 {
		// the image of the same database (same data key) before its last operation
		pe := filepath.Join(dir, "earlier")
		if tre, err := buildDB(pe, key, c.Ops[:len(c.Ops)-1]); err == nil && tre.M.Render(false) != want {
			// same KEK, its own data key: also what a restored older backup would be
			leftoverImage, _ = os.ReadFile(pe)
			info.Class("older-valid-image-left-next-to-the-file")
		}
		defer func() { leftoverImage = nil }()
	}
	judge := func(kind string, pos int, data []byte) *h.Violation {
		if bytes.Equal(data, orig) {
			return nil
		}
		opened, dump, problem := tryOpen(dir, data, key)
		if problem != "" {
			return h.V("tamper-never-panics-or-corrupts", "%s at %d: %s", kind, pos, problem)
		}
		if opened && dump != want {
			return h.V("tampered-file-never-yields-different-contents", "%s at %d of a %d-byte file: Open succeeded with contents\n    %s\n  original contents\n    %s", kind, pos, len(orig), dump, want)
		}
		if opened {
			info.Class("outcome-identical")
		} else {
			info.Class("outcome-error")
		}
		return nil
	}
	info.Class("kind-" + c.Kind)
	info.NonTrivial = true
	switch c.Kind {
	case "bit":
		pos := c.Pos % (len(orig) * 8)
		data := append([]byte{}, orig...)
		data[pos/8] ^= 1 << (pos % 8)
		return judge("bit flip", pos, data), info
	case "truncate":
		pos := c.Pos % len(orig)
		return judge("truncation", pos, orig[:pos]), info
	case "all-bits":
		for pos := 0; pos < len(orig)*8; pos++ {
			data := append([]byte{}, orig...)
			data[pos/8] ^= 1 << (pos % 8)
			if v := judge("bit flip", pos, data); v != nil {
				return v, info
			}
		}
		return nil, info
	case "all-prefixes":
		for pos := 0; pos < len(orig); pos++ {
			if v := judge("truncation", pos, orig[:pos]); v != nil {
				return v, info
			}
		}
		return nil, info
	case "mix":
		pb := filepath.Join(dir, "b")
		trb, err := buildDB(pb, key, c.OpsB)
		if err != nil {
			return h.V("harness", "build B: %v", err), info
		}
		if trb.M.Render(false) == want {
			info.NonTrivial = false // nothing to tell apart
			return nil, info
		}
		other, _ := os.ReadFile(pb)
		var wa, wb map[string]json.RawMessage
		if json.Unmarshal(orig, &wa) != nil || json.Unmarshal(other, &wb) != nil {
			return h.V("harness", "database file is not a JSON object"), info
		}
		mixed := map[string]json.RawMessage{}
		for i, f := range []string{"Version", "DEK", "DB"} {
			if c.MixFr[i] {
				mixed[f] = wb[f]
			} else {
				mixed[f] = wa[f]
			}
		}
		if c.MixFr[1] == c.MixFr[2] {
			info.NonTrivial = false // an unmixed file (Version is the same constant in both)
			return nil, info
		}
		data, _ := json.Marshal(mixed)
		opened, dump, problem := tryOpen(dir, data, key)
		if problem != "" {
			return h.V("tamper-never-panics-or-corrupts", "field mixture %v: %s", c.MixFr, problem), info
		}
		if opened {
			return h.V("spliced-file-never-opens", "wrapper fields mixed from two databases under one KEK (from B: Version=%v DEK=%v DB=%v) opened with contents %s", c.MixFr[0], c.MixFr[1], c.MixFr[2], dump), info
		}
		info.Class("outcome-error")
	}
	return nil, info
}

func genTamperCase(rt *rapid.T) TamperCase {
	c := TamperCase{Ops: dbx.GenHistory(rt, 0, 8), Pos: rapid.IntRange(0, 1<<20).Draw(rt, "pos")}
	c.Kind = rapid.SampledFrom([]string{"bit", "bit", "bit", "truncate", "truncate", "mix"}).Draw(rt, "kind")
	c.Leftover = rapid.IntRange(0, 3).Draw(rt, "leftover") == 0
	if c.Kind == "mix" {
		c.OpsB = dbx.GenHistory(rt, 1, 8)
		c.MixFr = [3]bool{rapid.Bool().Draw(rt, "v"), rapid.Bool().Draw(rt, "dek"), rapid.Bool().Draw(rt, "db")}
	}
	return c
}

var c05tamper = &h.Campaign[TamperCase]{
	Prop: "C05", Sub: "tamper",
	Rule:  "rapid: a database built by a random history under a real KEK, then ONE corruption: a single-bit flip at a generated position, a truncation at a generated length, or a proper mixture of the wrapper fields (Version/DEK/DB) of two different databases under the same KEK; in one case of four a complete, valid image of an OLDER state under the same KEK lies next to the file under a leftover-temporary name; Open must fail (leaving the file untouched) or yield exactly the original contents, never different contents or a panic; every corrupted file differs from the original, so every case is non-trivial (mixtures of equal databases are discounted); distinct by scenario",
	Quick: 12000, Thorough: 2000000,
	Gen: genTamperCase,
	Run: runC05Tamper,
}

// Exhaustive: every single-bit flip and every truncation point of saved files.
func TestC05ExhaustiveTamper(t *testing.T) {
	rec := h.NewRec("C05", "tamper-exhaustive", "every single-bit flip and every proper prefix of database files built by fixed histories (2 files quick, 10 thorough, sharded); distinct by (file, kind, position); all are non-trivial (the bytes differ from the original)")
	defer rec.Flush()
	hists := [][]dbx.Op{
		{},
		{{Kind: "put", Name: "a", Val: []byte("one")}, {Kind: "put", Name: "a", Val: []byte("two")}, {Kind: "put", Name: "b", Val: []byte{}}},
	}
	if h.Thorough() {
		for i := 0; i < 8; i++ {
			var ops []dbx.Op
			for j := 0; j <= i; j++ {
				ops = append(ops, dbx.Op{Kind: "put", Name: fmt.Sprintf("n%d", j%3), Val: bytes.Repeat([]byte{byte('a' + j)}, 1+j*3)})
			}
			if i%2 == 1 {
				ops = append(ops, dbx.Op{Kind: "activate", Name: "n0", VSel: "latest"})
			}
			hists = append(hists, ops)
		}
	}
	sh, k := h.Shard()
	total := 0
	for fi, ops := range hists {
		if fi%k != sh {
			continue
		}
		for _, kind := range []string{"all-bits", "all-prefixes"} {
			c := TamperCase{Ops: ops, Kind: kind}
			v, info := runC05Tamper(t, c)
			n := 0
			for _, cl := range info.Classes {
				if cl == "outcome-identical" || cl == "outcome-error" {
					n++
					rec.Count(cl, 1)
				}
			}
			total += n
			rec.AddEvaluations(n)
			if v != nil {
				p := h.WriteFailure("C05", "tamper", v, c)
				h.Report("C05", "tamper", v, p)
				t.Fatalf("%s: %s", v.Clause, v.Detail)
			}
			rec.AddSample(map[string]any{"file_built_by": ops, "kind": kind, "positions_tried": n})
		}
	}
	rec.Set("nontrivial_count_exact", total)
	rec.Exhaustive()
	rec.Completed()
}

func init() { c05scan.Register(); c05tamper.Register() }

func TestC05Scan(t *testing.T)   { c05scan.Check(t) }
func TestC05Tamper(t *testing.T) { c05tamper.Check(t) }

// Native fuzz target: free mutation of valid database files under a fixed KEK.
func FuzzC05OpenBytes(f *testing.F) {
	key, err := loadKEK("keyset:kek1.keyset.json")
	if err != nil {
		f.Fatalf("fixture KEK: %v", err)
	}
	accepted := map[string]bool{}
	metas, _ := filepath.Glob(filepath.Join(fixturesDir(), "*-aesgcm.meta.json"))
	for _, mf := range metas {
		var fm fixtureMeta
		b, _ := os.ReadFile(mf)
		json.Unmarshal(b, &fm)
		if fm.File == "rich-aesgcm.db" {
			continue // 117 KB: too big to mutate usefully
		}
		data, err := os.ReadFile(filepath.Join(fixturesDir(), fm.File))
		if err != nil {
			f.Fatal(err)
		}
		kv := model.KV{}
		for n, s := range fm.Secrets {
			ms := &model.Sec{Vers: map[uint32]string{}, Active: s.Active}
			for k, v := range s.Versions {
				var num uint32
				fmt.Sscanf(k, "%d", &num)
				ms.Vers[num] = string(v)
			}
			kv[n] = ms
		}
		accepted[kv.Render(false)] = true
		f.Add(data)
		f.Add(data[:len(data)/2])
	}
	f.Add([]byte(`{"Version":1,"DEK":"","DB":""}`))
	f.Add([]byte(`null`))
	f.Add([]byte(`{"Version":1}`))
	dir, _ := os.MkdirTemp(os.Getenv("VERIF_FAST_SCRATCH"), "fuzz05-")
	f.Cleanup(func() { os.RemoveAll(dir) })
	f.Fuzz(func(t *testing.T, data []byte) {
		if len(data) == 0 {
			t.Skip() // an absent/empty path is "create a new database", not tampering
		}
		opened, dump, problem := tryOpen(dir, data, key)
		var v *h.Violation
		if problem != "" {
			v = h.V("tamper-never-panics-or-corrupts", "%s", problem)
		} else if opened && !accepted[dump] {
			v = h.V("tampered-file-never-yields-different-contents", "mutated file opened with contents %s, which no valid file under this key holds", dump)
		}
		if v != nil {
			p := h.WriteFailure("C05", "fuzzbytes", v, data)
			h.Report("C05", "fuzzbytes", v, p)
			t.Fatalf("%s: %s", v.Clause, v.Detail)
		}
	})
}
