package dbp

import (
	"bytes"
	"context"
	"encoding/json"
	"errors"
	"fmt"
	"io"
	"net/http"
	"os"
	"path/filepath"
	"sort"
	"strings"
	"syscall"
	"testing"

	"github.com/tailscale/setec/audit"
	"github.com/tailscale/setec/db"
	"github.com/tailscale/setec/server"
	"tailscale.com/client/tailscale/apitype"
	"github.com/tink-crypto/tink-go/v2/aead"
	"github.com/tink-crypto/tink-go/v2/insecurecleartextkeyset"
	"github.com/tink-crypto/tink-go/v2/keyset"
	"github.com/tink-crypto/tink-go/v2/tink"
	"pgregory.net/rapid"
	"verifharness/dbx"
	"verifharness/h"
	"verifharness/model"
)

// ---- C03: restart fidelity and schema-v1 compatibility ------------------

type fileID struct {
	ino   uint64
	size  int64
	mtime int64
	data  []byte
}

func statFile(p string) (fileID, error) {
	st, err := os.Stat(p)
	if err != nil {
		return fileID{}, err
	}
	b, err := os.ReadFile(p)
	if err != nil {
		return fileID{}, err
	}
	sys := st.Sys().(*syscall.Stat_t)
	return fileID{ino: sys.Ino, size: st.Size(), mtime: st.ModTime().UnixNano(), data: b}, nil
}

func (a fileID) same(b fileID) bool {
	return a.ino == b.ino && a.size == b.size && a.mtime == b.mtime && bytes.Equal(a.data, b.data)
}

func newRealKEK() (tink.AEAD, *keyset.Handle) {
	hd, err := keyset.NewHandle(aead.AES256GCMKeyTemplate())
	if err != nil {
		panic(err)
	}
	a, err := aead.New(hd)
	if err != nil {
		panic(err)
	}
	return a, hd
}

// probeCounters opens a copy of the file and puts a fresh value to every name;
// the version returned must be the model's next number.
func probeCounters(dir string, data []byte, key tink.AEAD, m model.KV) string {
	cp := filepath.Join(dir, "probe")
	// the copy is what a restored backup or a checked-out file looks like: loosely permissioned
	if err := os.WriteFile(cp, data, 0o644); err != nil {
		return "harness: " + err.Error()
	}
	os.Chmod(cp, []os.FileMode{0o644, 0o666, 0o640, 0o600}[len(data)%4])
	defer os.Remove(cp)
	before, err := statFile(cp)
	if err != nil {
		return "harness: " + err.Error()
	}
	d, err := dbx.OpenDiscard(cp, key)
	if err != nil {
		return "open of copy failed: " + err.Error()
	}
	if after, err := statFile(cp); err != nil || !before.same(after) {
		return fmt.Sprintf("OPEN-MODIFIED opening a copy of the file (mode %o) changed it (inode %d->%d size %d->%d bytes-equal=%v) err=%v", []os.FileMode{0o644, 0o666, 0o640, 0o600}[len(data)%4], before.ino, after.ino, before.size, after.size, bytes.Equal(before.data, after.data), err)
	}
	su := dbx.Super()
	for _, n := range m.Names() {
		want := m[n].Latest + 1
		got, err := d.Put(su.DB(), n, []byte("probe-unique-\x00\x01"+n))
		if err != nil || uint32(got) != want {
			return fmt.Sprintf("after reopen, a fresh put to %q returned version %d (%v), model's next version is %d", n, got, err, want)
		}
	}
	return ""
}

type RestartCase struct {
	Ops      []dbx.Op `json:"ops"`
	RealKEK  bool     `json:"real_kek"`
	FailSave []int    `json:"fail_save"` // indices of calls during which the database directory is renamed away, so a save fails
	Retry    bool     `json:"retry"`     // the client repeats the identical call straight after such a failure
	// indices of calls during which the audit device fails (the call is then expected to report an error;
	// whatever it reports, only a call that reported success may have taken effect - now or after a
	// restart). The server is restarted afterwards, because the audit writer does not recover.
	FailAudit []int `json:"fail_audit,omitempty"`
	// the configured database path is a symbolic link to the real file next to it: "rel" = the link's
	// target is a relative name (ln -s database.real db), "abs" = an absolute one, "" = a plain file.
	// The server's working directory is somewhere else entirely.
	Symlink string `json:"symlink,omitempty"`
}

// downKEK is a key service that cannot be reached.
type downKEK struct{}

func (downKEK) Encrypt(pt, ad []byte) ([]byte, error) { return nil, errors.New("injected: key service unavailable") }
func (downKEK) Decrypt(ct, ad []byte) ([]byte, error) { return nil, errors.New("injected: key service unavailable") }

// lsState lists a state directory: names, sizes and modes.
func lsState(dir string) string {
	es, _ := os.ReadDir(dir)
	var sb strings.Builder
	for _, e := range es {
		if fi, err := e.Info(); err == nil {
			fmt.Fprintf(&sb, "%s(%d,%v) ", e.Name(), fi.Size(), fi.Mode())
		}
	}
	return sb.String()
}

// flakyAudit is an audit device that can be made to fail.
type flakyAudit struct{ fail bool }

func (f *flakyAudit) Write(p []byte) (int, error) {
	if f.fail {
		return 0, errors.New("injected: audit device unavailable")
	}
	return len(p), nil
}

// wouldSave reports whether the (allowed) call writes the file in state m.
func wouldSave(m model.KV, op dbx.Op, ver uint32) bool {
	c := m.Clone()
	switch op.Kind {
	case "put":
		before := c.Render(true)
		_, cl := c.Put(op.Name, string(op.Val))
		return cl == model.OK && c.Render(true) != before
	case "activate":
		s := m[op.Name]
		return c.Activate(op.Name, ver) == model.OK && s != nil && s.Active != ver
	case "delver":
		return c.DeleteVersion(op.Name, ver) == model.OK
	case "del":
		return m[op.Name] != nil && c.Delete(op.Name) == model.OK
	}
	return false
}

func checkRestart(dir, path string, key tink.AEAD, tr *dbx.Tracker, step int, op dbx.Op) *h.Violation {
	before, err := statFile(path)
	if err != nil {
		return h.V("harness", "stat: %v", err)
	}
	if (step+len(before.data))%3 == 0 {
		// Before the restart that works, two that do not: the key service is down when the server
		// starts, and somebody starts it with the wrong key. Each must fail and leave the file exactly as it was ("opening never modifies the file").
		ls0 := lsState(dir)
		for _, attempt := range []string{"server start while the key service is down", "open with another key"} {
			var ferr error
			if attempt[0] == 's' {
				_, ferr = server.New(context.Background(), server.Config{DBPath: path, Key: downKEK{}, AuditLog: audit.New(io.Discard), Mux: http.NewServeMux(),
					WhoIs: func(context.Context, string) (*apitype.WhoIsResponse, error) { return dbx.WhoIsOf(dbx.Super()), nil }})
			} else {
				_, ferr = dbx.OpenDiscard(path, dbx.DummyKeyNamed("someone-elses-kek"))
			}
			if ferr == nil {
				return h.V("harness", "after step %d %s: %s succeeded (C05 decides that)", step, op, attempt)
			}
			mid, err := statFile(path)
			// (the FILE is what the property speaks of; what else an implementation keeps in the directory -
			// a lock file, a log - is its own business and only shown in the message)
			if err != nil || !before.same(mid) {
				return h.V("open-never-modifies", "after step %d %s: a failed start (%s: %v) changed the database file: err=%v; the directory was [%s] and is [%s]", step, op, attempt, ferr, err, ls0, lsState(dir))
			}
		}
	}
	d2, err := dbx.OpenDiscard(path, key)
	if err != nil {
		return h.V("reopen-succeeds", "after step %d %s: reopen failed: %v", step, op, err)
	}
	after, err := statFile(path)
	if err != nil || !before.same(after) {
		return h.V("open-never-modifies", "after step %d %s: opening changed the file (inode %d->%d size %d->%d mtime %d->%d bytes-equal=%v) err=%v", step, op, before.ino, after.ino, before.size, after.size, before.mtime, after.mtime, bytes.Equal(before.data, after.data), err)
	}
	dump, err := dbx.Dump(d2)
	if err != nil {
		return h.V("reopen-equals-model", "after step %d %s: dump of reopened database failed: %v", step, op, err)
	}
	if diff := dbx.DumpDiff(dump, tr.M); diff != "" {
		return h.V("reopen-equals-model", "after step %d %s: reopened %s", step, op, diff)
	}
	dec, err := model.DecodeDBFile(before.data, key)
	if err != nil {
		return h.V("schema-v1-layout", "after step %d %s: file does not decode per the documented layout: %v", step, op, err)
	}
	if dec.Render(true) != tr.M.Render(true) {
		return h.V("schema-v1-layout", "after step %d %s: independently decoded file is\n    %s\n  model says\n    %s", step, op, dec.Render(true), tr.M.Render(true))
	}
	if msg := probeCounters(dir, before.data, key, tr.M); msg != "" {
		if strings.HasPrefix(msg, "OPEN-MODIFIED") {
			return h.V("open-never-modifies", "after step %d %s: %s", step, op, msg)
		}
		return h.V("next-version-counters-survive", "after step %d %s: %s", step, op, msg)
	}
	return nil
}

func runC03(t *testing.T, rc RestartCase) (*h.Violation, h.Info) {
	var info h.Info
	dir := caseDir(t)
	defer os.RemoveAll(dir)
	path := filepath.Join(dir, "db")
	key := dbx.DummyKey()
	if rc.RealKEK {
		key, _ = newRealKEK()
		info.Class("real-kek")
	}
	sink := &flakyAudit{}
	if rc.Symlink != "" {
		// the real file is created first (by an earlier run of the server), then linked to
		real := filepath.Join(dir, "c03-database.real")
		if _, err := dbx.OpenDiscard(real, key); err != nil {
			return h.V("harness", "create: %v", err), info
		}
		target := real
		if rc.Symlink == "rel" {
			target = "c03-database.real"
			defer os.Remove("c03-database.real") // (what a server that resolved the name against its working directory leaves behind)
		}
		if err := os.Symlink(target, path); err != nil {
			return h.V("harness", "symlink: %v", err), info
		}
		info.Class("database-path-is-a-symbolic-link-" + rc.Symlink)
	}
	d, err := db.Open(path, key, audit.New(sink))
	if err != nil {
		return h.V("harness", "open: %v", err), info
	}
	tr := dbx.NewTracker()
	su := dbx.Super()
	tgt := dbx.DBTarget{D: d}
	if v := checkRestart(dir, path, key, tr, -1, dbx.Op{Kind: "create"}); v != nil {
		return v, info
	}
	lastMutOK := ""
	sawNewestDeleted := false
	for i, op := range rc.Ops {
		ver := tr.Resolve(op)
		if s := tr.M[op.Name]; s != nil && op.Kind == "delver" && ver == s.Latest && ver != s.Active {
			sawNewestDeleted = true
		}
		auditFails := false
		for _, f := range rc.FailAudit {
			if f == i {
				auditFails = true
			}
		}
		if auditFails {
			sink.fail = true
			shadow := tr.Clone()
			want := shadow.Expect(su.Rules, op, ver)
			got := tgt.Do(su, op, ver)
			sink.fail = false
			info.Class("audit-device-failed-during-a-call")
			info.NonTrivial = true
			if got.Class == model.OK {
				// it reported success (whether it may is another property's business): then it happened
				if diff := dbx.Compare(got, want); diff != "" {
					return h.V("result-equals-model", "step %d %s with a failing audit device: %s", i, op, diff), info
				}
				tr = shadow
			}
			dump, err := dbx.Dump(d)
			if err == nil {
				if diff := dbx.DumpDiff(dump, tr.M); diff != "" {
					return h.V("only-acknowledged-operations-take-effect", "step %d %s reported %s while the audit device was failing, but the running database now holds %s", i, op, got, diff), info
				}
			}
			if v := checkRestart(dir, path, key, tr, i, op); v != nil {
				if v.Clause == "reopen-equals-model" {
					v.Detail = fmt.Sprintf("(the call reported %s while the audit device was failing) %s", got, v.Detail)
				}
				return v, info
			}
			// the audit writer stays broken after a failed write: restart the server
			sink = &flakyAudit{}
			if d, err = db.Open(path, key, audit.New(sink)); err != nil {
				return h.V("reopen-succeeds", "restart after step %d: %v", i, err), info
			}
			tgt = dbx.DBTarget{D: d}
			continue
		}
		failing := false
		for _, f := range rc.FailSave {
			if f == i && wouldSave(tr.M, op, ver) {
				failing = true
			}
		}
		var early *dbx.Result
		if failing {
			var got dbx.Result
			held, err := dbx.Outage(dir, func() { got = tgt.Do(su, op, ver) })
			if err != nil {
				return h.V("harness", "%v", err), info
			}
			early, failing = &got, held // (not held: the code put the directory back itself - an ordinary call)
		}
		if failing {
			// the call's save fails (the directory is gone for its duration): the call must report
			// an error, and it did not happen - not now, and not after a later save and a restart
			got := *early
			early = nil
			info.Class("save-failed")
			info.NonTrivial = true
			if got.Class == model.OK {
				return h.V("failed-save-is-reported", "step %d %s: the database directory was unavailable during the call, yet it reported success (%s)", i, op, got), info
			}
			dump, err := dbx.Dump(d)
			if err != nil || dbx.DumpDiff(dump, tr.M) != "" {
				return h.V("only-acknowledged-operations-take-effect", "step %d %s failed (%s), but the running database now holds %v %s", i, op, got.Err, err, dbx.DumpDiff(dump, tr.M)), info
			}
			if v := checkRestart(dir, path, key, tr, i, op); v != nil {
				return v, info
			}
			if !rc.Retry {
				continue
			}
			info.Class("identical-call-retried-after-failed-save")
		}
		want := tr.Expect(su.Rules, op, ver)
		var got dbx.Result
		if early != nil {
			got = *early
		} else {
			got = tgt.Do(su, op, ver)
		}
		if diff := dbx.Compare(got, want); diff != "" {
			return h.V("result-equals-model", "step %d %s: %s", i, op, diff), info
		}
		if op.Mutating() && got.Class == model.OK {
			lastMutOK = op.Kind
		}
		if v := checkRestart(dir, path, key, tr, i, op); v != nil {
			return v, info
		}
		if lastMutOK == "del" || lastMutOK == "delver" {
			info.NonTrivial = true
		}
	}
	if sawNewestDeleted {
		info.Class("counter-probe-after-newest-deleted")
		info.NonTrivial = true
	}
	if info.NonTrivial {
		info.Class("reopen-after-delete")
	}
	return nil, info
}

var c03 = &h.Campaign[RestartCase]{
	Prop: "C03", Sub: "restart",
	Rule:  "rapid: superuser histories as in C02 (1-25 calls), dummy or real AES-256-GCM KEK; after EVERY call: a second db.Open of the same path must leave file bytes/inode/size/mtime untouched and dump exactly the model state, an independent decoder of the documented schema-v1 layout must yield the model state including next-version counters, and on a copy a fresh put to each name must return model.latest+1; non-trivial = a reopen that follows a successful delete/delete-version, or a counter probe after the newest version was deleted; distinct by history",
	Quick: 4000, Thorough: 400000,
	Gen: func(rt *rapid.T) RestartCase {
		c := RestartCase{Ops: dbx.GenHistory(rt, 1, 25), RealKEK: rapid.IntRange(0, 3).Draw(rt, "realkek") == 0}
		c.Symlink = rapid.SampledFrom([]string{"", "", "", "", "rel", "abs"}).Draw(rt, "symlink")
		if rapid.IntRange(0, 2).Draw(rt, "withfail") == 0 {
			c.FailSave = rapid.SliceOfN(rapid.IntRange(0, 24), 1, 3).Draw(rt, "failsave")
			c.Retry = rapid.Bool().Draw(rt, "retry")
		}
		if rapid.IntRange(0, 3).Draw(rt, "withauditfail") == 0 {
			c.FailAudit = rapid.SliceOfN(rapid.IntRange(0, 14), 1, 3).Draw(rt, "failaudit")
		}
		return c
	},
	Run: runC03,
}

// ---- files rendered by the independent encoder must open with exactly their contents

type EncodedCase struct {
	Ops []dbx.Op `json:"ops"` // applied to the model only
}

func runC03Encoded(t *testing.T, ec EncodedCase) (*h.Violation, h.Info) {
	var info h.Info
	tr := dbx.NewTracker()
	su := dbx.Super()
	for _, op := range ec.Ops {
		tr.Expect(su.Rules, op, tr.Resolve(op))
	}
	key, _ := newRealKEK()
	data, err := model.EncodeDBFile(tr.M, key)
	if err != nil {
		return h.V("harness", "encode: %v", err), info
	}
	dir := caseDir(t)
	defer os.RemoveAll(dir)
	path := filepath.Join(dir, "db")
	os.WriteFile(path, data, 0o644)
	info.NonTrivial = len(tr.M) > 0
	for _, s := range tr.M {
		if _, ok := s.Vers[s.Latest]; !ok {
			info.Class("latest-version-deleted")
		}
	}
	if v := checkRestart(dir, path, key, tr, len(ec.Ops), dbx.Op{Kind: "encoded-file"}); v != nil {
		v.Clause = "schema-v1-file-opens-with-identical-contents/" + v.Clause
		return v, info
	}
	return nil, info
}

var c03enc = &h.Campaign[EncodedCase]{
	Prop: "C03", Sub: "encoded",
	Rule:  "rapid: model states reached by random histories are rendered to a schema-v1 file by the harness's own encoder (harness/model/dbfile.go, written from the documented layout) under a fresh AES-256-GCM KEK; db.Open must read exactly that state (dump, counters, file untouched); non-trivial = non-empty state; distinct by history",
	Quick: 1500, Thorough: 150000,
	Gen: func(rt *rapid.T) EncodedCase { return EncodedCase{Ops: dbx.GenHistory(rt, 0, 25)} },
	Run: runC03Encoded,
}

func init() { c03.Register(); c03enc.Register() }

func TestC03Restart(t *testing.T) { c03.Check(t) }
func TestC03Encoded(t *testing.T) { c03enc.Check(t) }

// ---- fixtures written by the pinned tree ----------------------------------

type fixtureMeta struct {
	File    string                       `json:"file"`
	KEK     string                       `json:"kek"` // "dummy:<name>" or "keyset:<file>"
	Secrets map[string]fixtureSecretMeta `json:"secrets"`
}
type fixtureSecretMeta struct {
	Versions map[string][]byte `json:"versions"`
	Active   uint32            `json:"active"`
	Latest   uint32            `json:"latest"`
}

func fixturesDir() string {
	root := os.Getenv("VERIF_ROOT")
	if root == "" {
		root = "/verif"
	}
	return filepath.Join(root, "fixtures")
}

func loadKEK(spec string) (tink.AEAD, error) {
	if len(spec) > 6 && spec[:6] == "dummy:" {
		return dbx.DummyKeyNamed(spec[6:]), nil
	}
	b, err := os.ReadFile(filepath.Join(fixturesDir(), spec[len("keyset:"):]))
	if err != nil {
		return nil, err
	}
	hd, err := insecurecleartextkeyset.Read(keyset.NewJSONReader(bytes.NewReader(b)))
	if err != nil {
		return nil, err
	}
	return aead.New(hd)
}

func TestC03Fixtures(t *testing.T) {
	h.FirstShardOnly(t)
	rec := h.NewRec("C03", "fixtures", "committed database files written by the pinned tree (fixtures/*.db, contents recorded in fixtures/*.json): must open with identical contents, untouched, counters intact; each file is one non-trivial case")
	defer rec.Flush()
	metas, _ := filepath.Glob(filepath.Join(fixturesDir(), "*.meta.json"))
	sort.Strings(metas)
	if len(metas) == 0 {
		t.Fatalf("no fixtures found in %s", fixturesDir())
	}
	for _, mf := range metas {
		var fm fixtureMeta
		b, _ := os.ReadFile(mf)
		if err := json.Unmarshal(b, &fm); err != nil {
			t.Fatalf("%s: %v", mf, err)
		}
		key, err := loadKEK(fm.KEK)
		if err != nil {
			t.Fatalf("%s: %v", mf, err)
		}
		tr := dbx.NewTracker()
		for n, s := range fm.Secrets {
			ms := &model.Sec{Vers: map[uint32]string{}, Active: s.Active, Latest: s.Latest}
			for k, v := range s.Versions {
				var n uint32
				fmt.Sscanf(k, "%d", &n)
				ms.Vers[n] = string(v)
			}
			tr.M[n] = ms
		}
		data, err := os.ReadFile(filepath.Join(fixturesDir(), fm.File))
		if err != nil {
			t.Fatalf("%s: %v", mf, err)
		}
		dir := caseDir(t)
		path := filepath.Join(dir, "db")
		os.WriteFile(path, data, 0o644)
		v := checkRestart(dir, path, key, tr, 0, dbx.Op{Kind: "fixture:" + fm.File})
		rec.Case(fm.File, h.Info{NonTrivial: true, Classes: []string{"fixture"}}, map[string]any{"fixture": fm.File, "names": tr.M.Names()})
		os.RemoveAll(dir)
		if v != nil {
			v.Clause = "pinned-release-file-opens-with-identical-contents/" + v.Clause
			p := h.WriteFailure("C03", "fixture", v, fm.File)
			h.Report("C03", "fixture", v, p)
			t.Fatalf("%s: %s", v.Clause, v.Detail)
		}
	}
	rec.Completed()
}

// TestMakeFixtures (re)creates the fixture files from whatever tree /repo
// holds; run by hand on the pinned tree only (VERIF_MKFIXTURES=1).
func TestMakeFixtures(t *testing.T) {
	if os.Getenv("VERIF_MKFIXTURES") != "1" {
		t.Skip("set VERIF_MKFIXTURES=1")
	}
	os.MkdirAll(fixturesDir(), 0o755)
	_, hd := newRealKEK()
	var kb bytes.Buffer
	insecurecleartextkeyset.Write(hd, keyset.NewJSONWriter(&kb))
	os.WriteFile(filepath.Join(fixturesDir(), "kek1.keyset.json"), kb.Bytes(), 0o644)
	real, _ := aead.New(hd)
	hists := map[string][]dbx.Op{
		"empty": {},
		"small": {{Kind: "put", Name: "a", Val: []byte("one")}, {Kind: "put", Name: "a", Val: []byte("two")}, {Kind: "put", Name: "b", Val: []byte{}}},
		"rich": {
			{Kind: "put", Name: "prod/db/password", Val: []byte("hunter2")}, {Kind: "put", Name: "prod/db/password", Val: []byte("hunter3")},
			{Kind: "put", Name: "prod/db/password", Val: []byte{0, 1, 2, 0xff, 0xfe}}, {Kind: "activate", Name: "prod/db/password", VSel: "abs", VArg: 2},
			{Kind: "delver", Name: "prod/db/password", VSel: "abs", VArg: 3}, {Kind: "put", Name: "a\nb", Val: []byte("newline name")},
			{Kind: "put", Name: "gone", Val: []byte("x")}, {Kind: "del", Name: "gone"}, {Kind: "put", Name: "gone", Val: []byte("again")},
			{Kind: "put", Name: "gone", Val: []byte("again2")}, {Kind: "put", Name: "ünï/cødé*", Val: []byte("π")},
			{Kind: "put", Name: "big", Val: bytes.Repeat([]byte("0123456789abcdef"), 4096)},
			{Kind: "put", Name: "holes", Val: []byte("1")}, {Kind: "put", Name: "holes", Val: []byte("2")}, {Kind: "put", Name: "holes", Val: []byte("3")},
			{Kind: "put", Name: "holes", Val: []byte("4")}, {Kind: "activate", Name: "holes", VSel: "abs", VArg: 3}, {Kind: "delver", Name: "holes", VSel: "abs", VArg: 1},
			{Kind: "delver", Name: "holes", VSel: "abs", VArg: 4},
		},
	}
	for name, ops := range hists {
		for _, kk := range []struct {
			tag  string
			key  tink.AEAD
			spec string
		}{{"dummy", dbx.DummyKeyNamed("fixture-kek"), "dummy:fixture-kek"}, {"aesgcm", real, "keyset:kek1.keyset.json"}} {
			file := fmt.Sprintf("%s-%s.db", name, kk.tag)
			path := filepath.Join(fixturesDir(), file)
			os.Remove(path)
			d, err := dbx.OpenDiscard(path, kk.key)
			if err != nil {
				t.Fatal(err)
			}
			tr := dbx.NewTracker()
			su := dbx.Super()
			for _, op := range ops {
				ver := tr.Resolve(op)
				want := tr.Expect(su.Rules, op, ver)
				got := dbx.DBTarget{D: d}.Do(su, op, ver)
				if diff := dbx.Compare(got, want); diff != "" {
					t.Fatalf("%s: %s", op, diff)
				}
			}
			os.Chmod(path, 0o644)
			fm := fixtureMeta{File: file, KEK: kk.spec, Secrets: map[string]fixtureSecretMeta{}}
			for n, s := range tr.M {
				sm := fixtureSecretMeta{Versions: map[string][]byte{}, Active: s.Active, Latest: s.Latest}
				for v, b := range s.Vers {
					sm.Versions[fmt.Sprint(v)] = []byte(b)
				}
				fm.Secrets[n] = sm
			}
			b, _ := json.MarshalIndent(fm, "", " ")
			os.WriteFile(filepath.Join(fixturesDir(), fmt.Sprintf("%s-%s.meta.json", name, kk.tag)), b, 0o644)
		}
	}
}
