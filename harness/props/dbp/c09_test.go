package dbp

import (
	"bytes"
	"context"
	"encoding/json"
	"errors"
	"os"
	"path/filepath"
	"testing"
	"time"
	"unicode/utf8"

	"github.com/tailscale/setec/audit"
	"github.com/tailscale/setec/client/setec"
	"github.com/tailscale/setec/db"
	"github.com/tailscale/setec/types/api"
	"pgregory.net/rapid"
	"verifharness/dbx"
	"verifharness/h"
	"verifharness/model"
)

// ---- C09: conditional get reports not-modified exactly when nothing changed --

type CondCase struct {
	Ops   []dbx.Op     `json:"ops"`
	Rules []model.Rule `json:"rules"` // caller 1
	HTTP  bool         `json:"http"`
	Text  bool         `json:"text"` // secrets file uses the TextValue spelling where possible
	// indices of conditional gets during which the audit device fails. Such a get may fail, but it
	// may answer "not changed" only if the active version IS V (an unchanged poll writes no record and
	// so does not depend on the device). The server is restarted afterwards.
	FailAudit []int `json:"fail_audit,omitempty"`
	// indices of put / activate / delete calls whose save fails (the state directory is unavailable while
	// the call is served): the call reports an error, nothing changes, and the conditional gets that
	// follow are answered from the state before it
	FailSave []int `json:"fail_save,omitempty"`
	// HTTP only: from this call on (1-based; 0 = never) the context the server was constructed with has
	// ended (the process is draining) while its handlers still serve: an answer may then be a refusal,
	// but a "not changed" or a value is as right as ever
	ServerCtxEndsAt int `json:"server_ctx_ends_at,omitempty"`
	// Big > 0: the history starts with a put of that many bytes to "a" (nothing bounds the size of a
	// value; replies of hundreds of kilobytes must come back whole through the network client)
	Big int `json:"big,omitempty"`
	// Exotic is one legal name with unusual content (dbx.ExoticNames) that the history also uses
	Exotic string `json:"exotic,omitempty"`
}

var c09Names = []string{"a", "a", "a", "b", "dev/c", "zz-absent"}

func genCondCase(rt *rapid.T) CondCase {
	c := CondCase{HTTP: rapid.Bool().Draw(rt, "http"), Text: rapid.Bool().Draw(rt, "text")}
	c.Exotic = dbx.Exotic(rt)
	c.Rules = []model.Rule{{Action: []string{"get"}, Secret: []string{rapid.SampledFrom([]string{"a", "*", "dev/*", "b", c.Exotic}).Draw(rt, "pat")}}}
	names := append(append([]string{}, c09Names...), c.Exotic, c.Exotic)
	c.Ops = rapid.SliceOfN(rapid.Custom(func(rt *rapid.T) dbx.Op {
		kinds := []string{"put", "put", "activate", "activate", "delver", "del", "cond", "cond", "cond", "cond"}
		o := dbx.GenOp(rt, names, kinds, 1)
		if o.Kind == "cond" {
			o.Caller = rapid.SampledFrom([]int{0, 1, 1, 2, 2, 3, 3}).Draw(rt, "caller")
		}
		if o.Kind == "put" && o.Val == nil {
			o.Val = []byte{}
		}
		if o.Kind == "activate" && rapid.Bool().Draw(rt, "existing") {
			o.VSel, o.VArg = "existing", rapid.IntRange(0, 3).Draw(rt, "idx")
		}
		return o
	}), h.LenBias(rt, 1, 30), 30).Draw(rt, "ops")
	if rapid.Bool().Draw(rt, "prefix") {
		// start from a secret that already has two versions with the newer one active
		c.Ops = append([]dbx.Op{{Kind: "put", Name: "a", Val: []byte("x")}, {Kind: "put", Name: "a", Val: []byte("y")}, {Kind: "activate", Name: "a", VSel: "latest"}}, c.Ops...)
	}
	if rapid.IntRange(0, 3).Draw(rt, "withauditfail") == 0 {
		c.FailAudit = rapid.SliceOfN(rapid.IntRange(0, len(c.Ops)), 1, 4).Draw(rt, "failaudit")
	}
	if rapid.IntRange(0, 2).Draw(rt, "withsavefail") == 0 {
		c.FailSave = rapid.SliceOfN(rapid.IntRange(0, len(c.Ops)), 1, 6).Draw(rt, "failsave")
	}
	if c.HTTP && rapid.IntRange(0, 3).Draw(rt, "serverctx") == 0 {
		c.ServerCtxEndsAt = rapid.IntRange(1, len(c.Ops)).Draw(rt, "serverctxat")
	}
	if rapid.IntRange(0, 23).Draw(rt, "withbig") == 0 {
		c.Big = rapid.SampledFrom([]int{70_000, 200_000, 300_000}).Draw(rt, "big")
	}
	return c
}

func fileClientFor(dir string, m model.KV, text bool) (*setec.FileClient, map[string]bool, error) {
	doc := map[string]any{}
	served := map[string]bool{}
	for _, n := range m.Names() {
		s := m[n]
		val := s.Vers[s.Active]
		sec := map[string]any{"Version": s.Active}
		if text && val != "" && utf8.ValidString(val) {
			sec["TextValue"] = val
		} else {
			sec["Value"] = []byte(val)
		}
		doc[n] = map[string]any{"secret": sec}
		served[n] = n != "" && val != ""
	}
	// hand-maintained entries that carry a value but no usable version number
	doc["zz-version-zero"] = map[string]any{"secret": map[string]any{"Version": 0, "Value": []byte("zero")}}
	doc["zz-version-omitted"] = map[string]any{"secret": map[string]any{"TextValue": "omitted"}}
	b, err := json.Marshal(doc)
	if err != nil {
		return nil, nil, err
	}
	p := filepath.Join(dir, "secrets.json")
	if err := os.WriteFile(p, b, 0o600); err != nil {
		return nil, nil, err
	}
	// the tool that deploys the secrets file preserves a fixed time stamp (reproducible builds do):
	// what a file-backed client serves is what the file says when the client is constructed
	stamp := time.Unix(1700000000, 0)
	os.Chtimes(p, stamp, stamp)
	fc, err := setec.NewFileClient(p)
	return fc, served, err
}

func runC09(t *testing.T, c CondCase) (*h.Violation, h.Info) {
	var info h.Info
	top := caseDir(t)
	defer os.RemoveAll(top)
	dir := filepath.Join(top, "state")
	os.MkdirAll(dir, 0o700)
	if c.Big > 0 {
		c.Ops = append([]dbx.Op{{Kind: "put", Name: "a", Val: bytes.Repeat([]byte("0123456789abcde\n"), c.Big/16)}}, c.Ops...)
		info.Class("a-value-of-tens-to-hundreds-of-kilobytes")
	}
	su := dbx.Super()
	low := dbx.Restricted(1, c.Rules)
	// two tagged devices (tagged nodes have no user identity): one without any grant, one with caller 1's
	callers := []dbx.CallerM{su, low, dbx.Restricted(2, nil), dbx.Restricted(4, c.Rules)}
	var tgt dbx.Target
	var sink *flakyAudit
	endServerCtx, serverCtxEnded := func() {}, false
	tr := dbx.NewTracker()
	tr.Wire = c.HTTP
	start := func() *h.Violation {
		sink = &flakyAudit{}
		d, err := db.Open(filepath.Join(dir, "db"), dbx.DummyKey(), audit.New(sink))
		if err != nil {
			return h.V("harness", "open: %v", err)
		}
		tgt = dbx.DBTarget{D: d}
		if c.HTTP {
			var sctx context.Context
			sctx, endServerCtx = context.WithCancel(context.Background())
			if serverCtxEnded {
				endServerCtx()
			}
			ht, err := dbx.NewHTTPCtx(sctx, d, callers)
			if err != nil {
				return h.V("harness", "server: %v", err)
			}
			tgt = ht
		}
		return nil
	}
	defer func() { endServerCtx() }()
	if v := start(); v != nil {
		return v, info
	}
	if c.HTTP {
		info.Class("path-http+client")
	} else {
		info.Class("path-db")
	}
	activatedBack := map[string]bool{}
	for i, op := range c.Ops {
		if c.HTTP && c.ServerCtxEndsAt > 0 && i+1 == c.ServerCtxEndsAt {
			endServerCtx()
			serverCtxEnded = true
			info.Class("server-context-ended-while-serving")
		}
		ver := tr.Resolve(op)
		caller := callers[op.Caller]
		s := tr.M[op.Name]
		if op.Kind == "activate" && s != nil && ver != 0 && ver < s.Active {
			if _, ok := s.Vers[ver]; ok {
				activatedBack[op.Name] = true
			}
		}
		if op.Kind == "cond" && s != nil && model.Allow(caller.Rules, "get", op.Name) {
			if activatedBack[op.Name] {
				info.Class("cond-after-activation-backwards")
				info.NonTrivial = true
			}
			if _, ok := s.Vers[ver]; !ok && ver != 0 {
				info.Class("cond-with-deleted-or-never-existing-version")
				info.NonTrivial = true
			}
			if ver == s.Active {
				info.Class("cond-current")
			}
		}
		before := tr.M.String()
		trBefore := tr.Clone()
		want := tr.Expect(caller.Rules, op, ver)
		auditFails := false
		for _, f := range c.FailAudit {
			if f == i && op.Kind == "cond" {
				auditFails = true
			}
		}
		if auditFails {
			sink.fail = true
			got := tgt.Do(caller, op, ver)
			sink.fail = false
			info.Class("conditional-get-with-a-failing-audit-device")
			if (got.Class == model.NotChanged) != (want.Class == model.NotChanged) {
				return h.V("not-modified-iff-active-equals-V", "step %d %s (V=%d) in state %s while the audit device fails: answered %s; without the fault the answer is %s - a fault may turn the answer into an error, never into (or away from) 'not changed'", i, op, ver, before, got, want), info
			}
			if got.HasVal && want.Class == model.OK && (got.Ver != want.Ver || !bytes.Equal(got.Val, want.Val)) {
				return h.V("returns-active-version-with-its-bytes", "step %d %s (V=%d) while the audit device fails: %s, want %s", i, op, ver, got, want), info
			}
			if v := start(); v != nil { // the audit writer does not recover: restart the server
				return v, info
			}
			continue
		}
		saveFails := false
		if op.Mutating() && want.Class == model.OK && tr.M.String() != before {
			for _, f := range c.FailSave {
				saveFails = saveFails || f == i
			}
		}
		var early *dbx.Result
		if saveFails {
			var got dbx.Result
			held, err := dbx.Outage(dir, func() { got = tgt.Do(caller, op, ver) })
			if err != nil {
				return h.V("harness", "%v", err), info
			}
			if held {
				tr = trBefore // the call was refused by the disk: the model stays where it was
				info.Class("a-write-whose-save-failed")
				if got.Class == model.OK {
					return h.V("result-equals-model", "step %d %s: the save failed (state directory unavailable) yet the call reports success", i, op), info
				}
				continue
			}
			early = &got // the code put the directory back itself: an ordinary call
		}
		var got dbx.Result
		if early != nil {
			got = *early
		} else {
			got = tgt.Do(caller, op, ver)
		}
		if serverCtxEnded && got.Class == model.Other && want.Class != model.Other {
			tr = trBefore // a draining server may turn requests away; then nothing happened
			continue
		}
		if diff := dbx.Compare(got, want); diff != "" {
			clause := "result-equals-model"
			if op.Kind == "cond" {
				clause = "not-modified-iff-active-equals-V"
			}
			return h.V(clause, "step %d %s (V=%d) in state %s: %s", i, op, ver, before, diff), info
		}
		if op.Kind != "cond" {
			continue
		}
		// the same question to a file-backed client reading the model's active set
		fc, served, err := fileClientFor(dir, tr.M, c.Text)
		if err != nil {
			return h.V("fileclient-accepts-secrets-file", "step %d: NewFileClient: %v", i, err), info
		}
		sv, ferr := fc.GetIfChanged(context.Background(), op.Name, api.SecretVersion(ver))
		// an entry whose value is the empty byte string: the file-backed client may treat it as absent
		// (it does today) or serve it - the properties speak about non-empty secrets only
		emptyEntry := op.Name != "" && tr.M[op.Name] != nil && tr.M[op.Name].Vers[tr.M[op.Name].Active] == ""
		if emptyEntry && !errors.Is(ferr, api.ErrNotFound) {
			served[op.Name] = true
		}
		switch {
		case !served[op.Name]:
			if !errors.Is(ferr, api.ErrNotFound) || sv != nil {
				return h.V("fileclient-not-found", "step %d: FileClient.GetIfChanged(%q,%d) = %v,%v; want ErrNotFound (state %s)", i, op.Name, ver, sv, ferr, tr.M), info
			}
		case ver == tr.M[op.Name].Active:
			if !errors.Is(ferr, api.ErrValueNotChanged) || sv != nil {
				return h.V("fileclient-not-modified-iff-active-equals-V", "step %d: FileClient.GetIfChanged(%q,%d) = %v,%v; want ErrValueNotChanged", i, op.Name, ver, sv, ferr), info
			}
		default:
			s := tr.M[op.Name]
			if ferr != nil || sv == nil || uint32(sv.Version) != s.Active || !bytes.Equal(sv.Value, []byte(s.Vers[s.Active])) {
				return h.V("fileclient-returns-active", "step %d: FileClient.GetIfChanged(%q,%d) = %v,%v; want v%d %q", i, op.Name, ver, sv, ferr, s.Active, s.Vers[s.Active]), info
			}
		}
		// entries without a version number: however the client treats them, "V = 0 means unconditional"
		for _, zn := range []string{"zz-version-zero", "zz-version-omitted"} {
			g, gerr := fc.Get(context.Background(), zn)
			cv, cerr := fc.GetIfChanged(context.Background(), zn, 0)
			if errors.Is(cerr, api.ErrValueNotChanged) || (gerr == nil) != (cerr == nil) || (gerr == nil && (cv == nil || g == nil || cv.Version != g.Version || !bytes.Equal(cv.Value, g.Value))) {
				return h.V("fileclient-v0-is-unconditional", "secrets-file entry %q: Get = %v,%v but GetIfChanged(name, 0) = %v,%v", zn, g, gerr, cv, cerr), info
			}
		}
		sv, ferr = fc.Get(context.Background(), op.Name)
		if served[op.Name] {
			s := tr.M[op.Name]
			if ferr != nil || sv == nil || uint32(sv.Version) != s.Active || !bytes.Equal(sv.Value, []byte(s.Vers[s.Active])) {
				return h.V("fileclient-returns-active", "step %d: FileClient.Get(%q) = %v,%v; want v%d %q", i, op.Name, sv, ferr, s.Active, s.Vers[s.Active]), info
			}
		} else if !errors.Is(ferr, api.ErrNotFound) {
			return h.V("fileclient-not-found", "step %d: FileClient.Get(%q) = %v,%v; want ErrNotFound", i, op.Name, sv, ferr), info
		}
	}
	return nil, info
}

var c09 = &h.Campaign[CondCase]{
	Prop: "C09", Sub: "cond",
	Rule:  "rapid: histories (1-30 calls) of put/activate/delete-version/delete by a superuser interleaved with conditional gets carrying V in {0, active, latest, latest+1, existing[i], deleted[i], 2^32-1, absolute} by the superuser, a partially allowed user, a tagged device without any grant and a tagged device with the same partial grant, through db.DB or HTTP handlers + setec.Client; in one case of four the audit device fails during some conditional gets (the answer may become an error, never switch to or from not-changed; the server is restarted afterwards); at every conditional get the same question is also put to a FileClient built from a secrets file rendered from the model's active set (Value or TextValue spelling) plus two hand-maintained entries without a usable version number, for which GetIfChanged(name, 0) must agree with Get(name); every history also uses one legal name with unusual content (control characters, non-ASCII text, %, path-like or version-like suffixes, words the implementation uses as keys), one case in 24 starts with a value of 70-300 KB; non-trivial = a conditional get on an existing, permitted secret after an activation back to an older version, or with V naming a deleted/never-existing version; distinct by scenario",
	Quick: 10000, Thorough: 1500000,
	Gen: genCondCase,
	Run: runC09,
}

func init() { c09.Register() }

func TestC09Cond(t *testing.T) { c09.Check(t) }
