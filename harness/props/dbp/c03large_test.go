package dbp

import (
	"crypto/sha256"
	"encoding/binary"
	"fmt"
	"os"
	"path/filepath"
	"testing"

	"pgregory.net/rapid"
	"verifharness/dbx"
	"verifharness/h"
	"verifharness/model"
)

// ---- C03: databases that have grown large ---------------------------------------------------------
//
// "After ANY history ... reopening yields exactly the state": histories whose values add up to tens of
// megabytes (a few large certificates / key bundles, or many versions of one).  The database is
// reopened after every single call, as in the main campaign.

type LargeCase struct {
	Seed  uint64 `json:"seed"`
	Sizes []int  `json:"sizes_kib"` // one put per entry, of this many KiB
	Names []int  `json:"names"`     // index into {a, b, dev/c} per put
	// after the puts: delete the first secret, then put one small value (the file shrinks again)
	Shrink bool `json:"shrink"`
}

// bigValue expands (seed, i) into n pseudo-random bytes (incompressible, different for every i).
func bigValue(seed uint64, i, n int) []byte {
	out := make([]byte, 0, n+32)
	var ctr [24]byte
	binary.LittleEndian.PutUint64(ctr[:], seed)
	binary.LittleEndian.PutUint64(ctr[8:], uint64(i))
	for k := uint64(0); len(out) < n; k++ {
		binary.LittleEndian.PutUint64(ctr[16:], k)
		sum := sha256.Sum256(ctr[:])
		out = append(out, sum[:]...)
	}
	return out[:n]
}

func runC03Large(t *testing.T, c LargeCase) (*h.Violation, h.Info) {
	var info h.Info
	dir := caseDir(t)
	defer os.RemoveAll(dir)
	path := filepath.Join(dir, "db")
	key := dbx.DummyKey()
	d, err := dbx.OpenDiscard(path, key)
	if err != nil {
		return h.V("harness", "open: %v", err), info
	}
	tr := dbx.NewTracker()
	su := dbx.Super()
	names := []string{"a", "b", "dev/c"}
	total := 0
	step := func(i int, op dbx.Op) *h.Violation {
		ver := tr.Resolve(op)
		want := tr.Expect(su.Rules, op, ver)
		got := dbx.DBTarget{D: d}.Do(su, op, ver)
		if got.Class != want.Class || got.Ver != want.Ver {
			return h.V("result-equals-model", "step %d %s(%q, %d bytes): %s, want %s", i, op.Kind, op.Name, len(op.Val), got.Class, want.Class)
		}
		d2, err := dbx.OpenDiscard(path, key)
		if err != nil {
			st, _ := os.Stat(path)
			return h.V("reopen-succeeds", "after step %d (%s of %d bytes to %q; the values stored add up to %d KiB, the file has %d bytes): reopen failed: %v", i, op.Kind, len(op.Val), op.Name, total/1024, st.Size(), err)
		}
		dump, err := dbx.Dump(d2)
		if err != nil {
			return h.V("reopen-equals-model", "after step %d: dump of the reopened database: %v", i, err)
		}
		if dump.Render(false) != tr.M.Render(false) {
			return h.V("reopen-equals-model", "after step %d (values add up to %d KiB): the reopened database differs from the acknowledged state (names %v vs %v)", i, total/1024, dump.Names(), tr.M.Names())
		}
		return nil
	}
	for i, kib := range c.Sizes {
		v := bigValue(c.Seed, i, kib*1024+i)
		total += len(v)
		if viol := step(i, dbx.Op{Kind: "put", Name: names[c.Names[i%len(c.Names)]%3], Val: v}); viol != nil {
			return viol, info
		}
	}
	info.Class(fmt.Sprintf("values-add-up-to-%d-MiB", total>>20))
	info.NonTrivial = total > 8<<20
	if c.Shrink {
		first := names[c.Names[0]%3]
		if viol := step(len(c.Sizes), dbx.Op{Kind: "del", Name: first}); viol != nil {
			return viol, info
		}
		if viol := step(len(c.Sizes)+1, dbx.Op{Kind: "put", Name: first, Val: []byte("small again")}); viol != nil {
			return viol, info
		}
		info.Class("shrunk-again")
	}
	_ = model.OK
	return nil, info
}

var c03large = &h.Campaign[LargeCase]{
	Prop: "C03", Sub: "large",
	Rule: "rapid: 4-14 puts of incompressible values of 256 KiB - 4 MiB each (expanded from a drawn seed) to three names, so that the stored values add up to as much as 40 MiB, optionally followed by deleting a secret and a small put; after EVERY call the file is reopened and its complete contents compared with the model; non-trivial = the values add up to more than 8 MiB; distinct by scenario",
	Quick: 2, Thorough: 60,
	Gen: func(rt *rapid.T) LargeCase {
		n := rapid.SampledFrom([]int{4, 5, 6, 8, 14}).Draw(rt, "n")
		c := LargeCase{Seed: rapid.Uint64().Draw(rt, "seed"), Shrink: rapid.Bool().Draw(rt, "shrink")}
		for i := 0; i < n; i++ {
			c.Sizes = append(c.Sizes, rapid.SampledFrom([]int{256, 1024, 1024, 2048, 3000, 4096}).Draw(rt, "kib"))
			c.Names = append(c.Names, rapid.IntRange(0, 2).Draw(rt, "name"))
		}
		return c
	},
	Run: runC03Large,
}

func init() { c03large.Register() }

func TestC03Large(t *testing.T) {
	// one fixed scenario that crosses every power of two up to 8 MiB of stored values (16 MiB of file), then the generated ones
	fixed := LargeCase{Seed: 7, Sizes: []int{1024, 2048, 4096, 4096, 4096}, Names: []int{0, 1, 2, 0, 1}, Shrink: true}
	if v, _ := runC03Large(t, fixed); v != nil {
		p := h.WriteFailure("C03", "large", v, fixed)
		h.Report("C03", "large", v, p)
		t.Fatalf("%s: %s", v.Clause, v.Detail)
	}
	c03large.Check(t)
}
