package dbp

import (
	"bytes"
	"fmt"
	"github.com/tailscale/setec/audit"
	"github.com/tailscale/setec/db"
	"os"
	"path/filepath"
	"testing"

	"github.com/tailscale/setec/types/api"
	"pgregory.net/rapid"
	"verifharness/dbx"
	"verifharness/h"
	"verifharness/model"
)

// ---- C02: the versioned store equals its sequential specification -----------

type HistoryCase struct {
	Ops    []dbx.Op `json:"ops"`
	Sparse bool     `json:"sparse"` // the full superuser dump is taken only at the end, not after every call
	// indices of calls during which the state directory is unavailable: a call that would write then
	// fails, and a failed call changes nothing - whatever kind of call it is (first put of a name, ...)
	FailSave []int `json:"fail_save,omitempty"`
	// indices of calls before which the server is restarted (the database re-opened from its file):
	// the sequential specification does not know about restarts - numbering, dedupe and everything
	// else carry on as if nothing had happened
	Reopen []int `json:"reopen,omitempty"`
	// indices of calls during which the audit device fails: whatever such a call reports, a call that
	// reports failure has changed nothing (the server is restarted afterwards, the writer does not recover)
	FailAudit []int `json:"fail_audit,omitempty"`
}

func runC02(t *testing.T, hc HistoryCase) (*h.Violation, h.Info) {
	var info h.Info
	dir := caseDir(t)
	defer os.RemoveAll(dir)
	sink := &flakyAudit{}
	d, err := db.Open(filepath.Join(dir, "db"), dbx.DummyKey(), audit.New(sink))
	if err != nil {
		return h.V("harness", "open: %v", err), info
	}
	tr := dbx.NewTracker()
	su := dbx.Super()
	keep := &dbx.Retained{}
	tgt := dbx.DBTarget{D: d, Keep: keep}
	reopen := func() *h.Violation {
		sink = &flakyAudit{}
		d2, err := db.Open(filepath.Join(dir, "db"), dbx.DummyKey(), audit.New(sink))
		if err != nil {
			return h.V("harness", "restart: %v (C03 decides that)", err)
		}
		d, tgt = d2, dbx.DBTarget{D: d2, Keep: keep}
		return nil
	}
	observer := dbx.Restricted(1, []model.Rule{{Action: []string{"info"}, Secret: []string{"a*", "dev/*"}}})
	classes := make([]model.Class, 0, len(hc.Ops))
	finish := func(v *h.Violation) (*h.Violation, h.Info) {
		cs, nt := dbx.HistoryClasses(hc.Ops, classes)
		info.Classes, info.NonTrivial = append(cs, info.Classes...), nt
		if hc.Sparse {
			info.Classes = append(info.Classes, "observed-only-through-its-own-calls")
		}
		return v, info
	}
	for i, op := range hc.Ops {
		for _, k := range hc.Reopen {
			if k == i {
				if v := reopen(); v != nil {
					return finish(v)
				}
				info.Class("server-restarted-mid-history")
				break
			}
		}
		before := tr.M.String()
		ver := tr.Resolve(op)
		auditFails := false
		for _, k := range hc.FailAudit {
			auditFails = auditFails || k == i
		}
		if auditFails {
			shadow := tr.Clone()
			want := shadow.Expect(su.Rules, op, ver)
			sink.fail = true
			got := tgt.Do(su, op, ver)
			sink.fail = false
			info.Class("audit-device-failed-during-a-call")
			if got.Class == model.OK {
				// it went through (whether it may is C06's business): then it happened as the model says
				if diff := dbx.Compare(got, want); diff != "" {
					return finish(h.V("result-equals-model", "step %d %s with a failing audit device: %s", i, op, diff))
				}
				tr = shadow
			}
			classes = append(classes, got.Class)
			if v := reopen(); v != nil {
				return finish(v)
			}
			dump, err := dbx.Dump(d)
			if err != nil {
				return finish(h.V("state-consistent", "step %d %s (audit device failing, reported %s): dump after restart: %v", i, op, got, err))
			}
			if diff := dbx.DumpDiff(dump, tr.M); diff != "" {
				return finish(h.V("failed-call-changes-nothing", "step %d %s reported %s while the audit device was failing, yet after a restart: %s", i, op, got, diff))
			}
			continue
		}
		outage := false
		for _, f := range hc.FailSave {
			if f == i && wouldSave(tr.M, op, ver) {
				outage = true
			}
		}
		var early *dbx.Result
		if outage {
			var got dbx.Result
			held, err := dbx.Outage(dir, func() { got = tgt.Do(su, op, ver) })
			if err != nil {
				return finish(h.V("harness", "%v", err))
			}
			early = &got
			outage = held // (false: the code put the directory back itself - an ordinary call, judged below)
		}
		if outage {
			got := *early
			classes = append(classes, model.Other)
			info.Class("call-failed-because-the-save-failed")
			if got.Class == model.OK {
				return finish(h.V("harness", "step %d %s reported success while the state directory was unavailable (C03/C04 decide that)", i, op))
			}
			dump, err := dbx.Dump(d)
			if err != nil {
				return finish(h.V("failed-call-changes-nothing", "step %d %s failed (%s) because its save failed; afterwards the superuser dump fails: %v (state before: %s)", i, op, got.Err, err, before))
			}
			if diff := dbx.DumpDiff(dump, tr.M); diff != "" {
				return finish(h.V("failed-call-changes-nothing", "step %d %s failed (%s) because its save failed, yet: %s", i, op, got.Err, diff))
			}
			continue
		}
		want := tr.Expect(su.Rules, op, ver)
		var got dbx.Result
		if early != nil {
			got = *early
		} else {
			got = tgt.Do(su, op, ver)
		}
		classes = append(classes, want.Class)
		if op.Kind == "activate" && op.VSel == "deleted" && len(tr.Deleted[op.Name]) > 0 {
			info.Class("activate-of-a-deleted-version")
		}
		if diff := dbx.Compare(got, want); diff != "" {
			v := h.V("result-equals-model", "step %d %s (version arg %d) in state %s: %s", i, op, ver, before, diff)
			return finish(v)
		}
		if op.Kind == "put" && got.Class == model.OK {
			sv, err := d.GetVersion(su.DB(), op.Name, api.SecretVersion(got.Ver))
			if err != nil || !bytes.Equal(sv.Value, op.Val) {
				return finish(h.V("put-immediately-retrievable", "step %d %s returned version %d, but get-version of it gives %v, %v (state before: %s)", i, op, got.Ver, sv, err, before))
			}
		}
		if msg := keep.Unchanged(); msg != "" {
			return finish(h.V("returned-results-are-private-copies", "step %d %s: %s", i, op, msg))
		}
		if hc.Sparse && i != len(hc.Ops)-1 {
			continue // observing (list, info, get) is itself a sequence of calls: also run histories without it
		}
		if i%2 == 0 {
			// another caller, who holds info on part of the names only, lists right before the superuser
			// looks: each of them is shown its own part of the same state
			lop := dbx.Op{Kind: "list"}
			if diff := dbx.Compare(tgt.Do(observer, lop, 0), tr.Clone().Expect(observer.Rules, lop, 0)); diff != "" {
				return finish(h.V("result-equals-model", "step %d %s: afterwards a caller holding info on \"a*\" and \"dev/*\" lists: %s", i, op, diff))
			}
		}
		dump, err := dbx.Dump(d)
		if err != nil {
			return finish(h.V("state-consistent", "step %d %s: superuser dump failed: %v", i, op, err))
		}
		if diff := dbx.DumpDiff(dump, tr.M); diff != "" {
			clause := "state-equals-model"
			if want.Class != model.OK {
				clause = "failed-call-changes-nothing"
			}
			return finish(h.V(clause, "step %d %s (version arg %d, outcome %s): %s", i, op, ver, got, diff))
		}
	}
	return finish(nil)
}

var c02 = &h.Campaign[HistoryCase]{
	Prop: "C02", Sub: "history",
	Rule:  "rapid: superuser histories (1-40 calls) of put/activate/delete-version/delete/get/get-version/conditional-get/info/list over 3 ordinary names plus \"\" and _internal/x, values from a small pool (re-puts of equal bytes frequent) incl. empty and nil, version selectors resolved against the model (0, active, latest, latest+1, existing[i], deleted[i], 2^32-1, absolute); result and full superuser dump compared with the map model after EVERY call; in one case of four the state directory is unavailable during some calls (a call that would write then fails and must change nothing); non-trivial = history contains delete-version->put, delete->re-create, or activate->put on one name; distinct by history",
	Quick: 10000, Thorough: 1500000,
	Gen: func(rt *rapid.T) HistoryCase {
		hc := HistoryCase{Ops: dbx.GenHistory(rt, 1, 40), Sparse: rapid.Bool().Draw(rt, "sparse")}
		if k := dbx.GenDeep(rt); k > 0 {
			// a secret that has been rotated a great many times before the history proper starts
			hc.Ops = append(dbx.DeepPuts("a", k), hc.Ops...)
			hc.Sparse = true // (the full dump after every one of hundreds of calls adds nothing)
		}
		if rapid.IntRange(0, 3).Draw(rt, "withoutage") == 0 {
			hc.FailSave = rapid.SliceOfN(rapid.IntRange(0, 20), 1, 4).Draw(rt, "failsave")
		}
		if rapid.IntRange(0, 2).Draw(rt, "withreopen") == 0 {
			hc.Reopen = rapid.SliceOfN(rapid.IntRange(1, len(hc.Ops)), 1, 4).Draw(rt, "reopen")
		}
		if rapid.IntRange(0, 5).Draw(rt, "withauditfail") == 0 {
			hc.FailAudit = rapid.SliceOfN(rapid.IntRange(0, len(hc.Ops)), 1, 3).Draw(rt, "failaudit")
		}
		return hc
	},
	Run: runC02,
}

func init() { c02.Register() }

func TestC02History(t *testing.T) { c02.Check(t) }

var _ = fmt.Sprintf
