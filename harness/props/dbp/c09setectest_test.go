package dbp

import (
	"context"
	"errors"
	"fmt"
	"io"
	"net/http"
	"net/http/httptest"
	"testing"

	"github.com/tailscale/setec/audit"
	"github.com/tailscale/setec/client/setec"
	"github.com/tailscale/setec/setectest"
	"github.com/tailscale/setec/types/api"
	"pgregory.net/rapid"
	"verifharness/h"
)

// ---- C09 through the side door other projects use: the setectest helpers ------------------------
//
// Programs that embed setec test against setectest.NewDB / setectest.NewServer: a database handle
// the test writes through, and a server over it that the code under test polls.  Whatever options
// the helpers are given, the server answers conditional gets from the state the handle has just
// written: not-changed exactly when the active version is V, the active version otherwise.

type SetectestCase struct {
	Steps    []int `json:"steps"`     // per step: 0 put a new version and activate it, 1 put only, 2 activate the previous version, 3 poll
	DBAudit  bool  `json:"db_audit"`  // DBOptions.AuditLog set
	SrvAudit bool  `json:"srv_audit"` // ServerOptions.AuditLog set
	LateSrv  int   `json:"late_srv"`  // the server is created after this many steps (so it may also start over existing data)
}

func runC09Setectest(t *testing.T, c SetectestCase) (*h.Violation, h.Info) {
	var info h.Info
	var v *h.Violation
	t.Run("case", func(t *testing.T) { // its own t: the helpers register their clean-up there
		var dopts *setectest.DBOptions
		if c.DBAudit {
			dopts = &setectest.DBOptions{AuditLog: audit.New(io.Discard)}
		}
		d := setectest.NewDB(t, dopts)
		var cl *setec.Client
		mk := func() {
			var sopts *setectest.ServerOptions
			if c.SrvAudit {
				sopts = &setectest.ServerOptions{AuditLog: audit.New(io.Discard)}
				info.Class("server-option-audit-log-set")
			}
			srv := setectest.NewServer(t, d, sopts)
			cl = &setec.Client{Server: "http://setectest", DoHTTP: func(r *http.Request) (*http.Response, error) {
				r.RemoteAddr = "100.64.0.1:1"
				w := httptest.NewRecorder()
				srv.Mux.ServeHTTP(w, r)
				return w.Result(), nil
			}}
		}
		su := d.Superuser
		active, latest := api.SecretVersion(0), api.SecretVersion(0)
		val := func(v api.SecretVersion) string { return fmt.Sprintf("value-%d", v) }
		for i, st := range c.Steps {
			if cl == nil && i >= c.LateSrv {
				mk()
			}
			switch st {
			case 0, 1:
				ver, err := d.Actual.Put(su, "polled", []byte(val(latest+1)))
				if err != nil {
					v = h.V("harness", "put: %v", err)
					return
				}
				latest = ver
				if st == 0 || active == 0 {
					if active != 0 || ver != 1 {
						if err := d.Actual.Activate(su, "polled", ver); err != nil {
							v = h.V("harness", "activate: %v", err)
							return
						}
					}
					active = ver
				}
			case 2:
				if active > 1 {
					if err := d.Actual.Activate(su, "polled", active-1); err != nil {
						v = h.V("harness", "activate: %v", err)
						return
					}
					active--
				}
			}
			if cl == nil {
				continue
			}
			// poll with every interesting V
			for _, V := range []api.SecretVersion{0, 1, active, active + 1, latest, latest + 1} {
				sv, err := cl.GetIfChanged(context.Background(), "polled", V)
				switch {
				case active == 0:
					if !errors.Is(err, api.ErrNotFound) {
						v = h.V("not-modified-iff-active-equals-V", "step %d: no secret yet; GetIfChanged(V=%d) over a setectest server = %v, %v", i, V, sv, err)
						return
					}
				case V != 0 && V == active:
					if !errors.Is(err, api.ErrValueNotChanged) {
						v = h.V("not-modified-iff-active-equals-V", "step %d: the test's database handle has active=%d (latest %d); GetIfChanged(V=%d) over the setectest server (DB audit option=%v, server audit option=%v) = %v, %v; want not-changed", i, active, latest, V, c.DBAudit, c.SrvAudit, sv, err)
						return
					}
				default:
					if err != nil || sv == nil || sv.Version != active || string(sv.Value) != val(active) {
						v = h.V("returns-active-version-with-its-bytes", "step %d: the test's database handle has active=%d (latest %d); GetIfChanged(V=%d) over the setectest server (DB audit option=%v, server audit option=%v) = %v, %v; want version %d %q", i, active, latest, V, c.DBAudit, c.SrvAudit, sv, err, active, val(active))
						return
					}
				}
			}
			info.Class("polled-after-a-write-through-the-handle")
		}
	})
	info.NonTrivial = len(c.Steps) >= 3
	return v, info
}

var c09setectest = &h.Campaign[SetectestCase]{
	Prop: "C09", Sub: "through-setectest",
	Rule: "rapid: a database from setectest.NewDB and a server from setectest.NewServer over it (each with or without its AuditLog option; the server created at the start or after some writes); 1-10 steps write through the database handle (put+activate, put only, activate the previous version); after every step the secret is polled over HTTP with V in {0, 1, active, active+1, latest, latest+1}: not-changed iff V is the active version, the active version and its bytes otherwise; non-trivial = at least three steps; distinct by scenario",
	Quick: 150, Thorough: 15000,
	Gen: func(rt *rapid.T) SetectestCase {
		return SetectestCase{
			Steps:    rapid.SliceOfN(rapid.SampledFrom([]int{0, 0, 1, 2, 3}), 1, 10).Draw(rt, "steps"),
			DBAudit:  rapid.Bool().Draw(rt, "dbaudit"),
			SrvAudit: rapid.Bool().Draw(rt, "srvaudit"),
			LateSrv:  rapid.SampledFrom([]int{0, 0, 1, 3}).Draw(rt, "latesrv"),
		}
	},
	Run: runC09Setectest,
}

func init() { c09setectest.Register() }

func TestC09ThroughSetectest(t *testing.T) { c09setectest.Check(t) }
