package dbp

import (
	"bufio"
	"bytes"
	"encoding/json"
	"errors"
	"fmt"
	"net/http/httptest"
	"os"
	"path/filepath"
	"sort"
	"strings"
	"sync"
	"syscall"
	"testing"

	"github.com/tailscale/setec/audit"
	"github.com/tailscale/setec/db"
	"pgregory.net/rapid"
	"verifharness/dbx"
	"verifharness/h"
	"verifharness/model"
)

// ---- C06: audit log: complete, before the effect, fail-closed ---------------

type sinkEvent struct {
	Kind     string // write | sync
	Data     []byte
	Failed   bool
	FileSame bool // database file identical to its pre-call contents at this moment
}

type recSink struct {
	mu        sync.Mutex
	events    []sinkEvent
	nWrite    int
	nSync     int
	failWrite int // 1-based index of the Write that fails (0 = never)
	partial   bool
	failSync  int
	errKind   string
	dbPath    string
	pre       []byte
	broken    bool // a Write has failed
	syncFail  bool // a Sync failed during the current call
	dangling  bool // the log currently ends in a fragment without newline (after a partial write)
	fused     bool // a later write was appended to such a fragment during the current call
}

// deviceError is what the failing device reports: a plain error, or the error an *os.File reports for
// a full disk, an I/O error, an exhausted quota (a record that cannot be written is a record that
// cannot be written, whatever the reason).
func (s *recSink) deviceError(op string) error {
	switch s.errKind {
	case "enospc":
		return &os.PathError{Op: op, Path: "/var/log/setec/audit.log", Err: syscall.ENOSPC}
	case "eio":
		return &os.PathError{Op: op, Path: "/var/log/setec/audit.log", Err: syscall.EIO}
	case "edquot":
		return &os.PathError{Op: op, Path: "/var/log/setec/audit.log", Err: syscall.EDQUOT}
	}
	return errors.New("injected: audit device failed (" + op + ")")
}

func (s *recSink) fileSame() bool {
	if s.dbPath == "" {
		return true
	}
	b, err := os.ReadFile(s.dbPath)
	return err == nil && bytes.Equal(b, s.pre)
}

func (s *recSink) Write(p []byte) (int, error) {
	s.mu.Lock()
	defer s.mu.Unlock()
	if s.dangling && len(p) > 0 && p[0] == '\n' {
		// a writer that knows the log ends in a torn fragment terminates it first: what follows the
		// newline is on a line of its own
		s.dangling = false
		if len(p) == 1 {
			return 1, nil // (just the terminator: not a record, not counted)
		}
		n, err := s.writeLocked(p[1:])
		if err == nil {
			n++
		}
		return n, err
	}
	return s.writeLocked(p)
}

func (s *recSink) writeLocked(p []byte) (int, error) {
	s.nWrite++
	ev := sinkEvent{Kind: "write", Data: append([]byte{}, p...), FileSame: s.fileSame()}
	if s.dangling && len(p) > 0 {
		s.fused = true // these bytes land on the same line as the fragment
	}
	if s.nWrite == s.failWrite {
		ev.Failed = true
		s.broken = true
		n := 0
		if s.partial {
			n = len(p) / 2
			ev.Data = ev.Data[:n]
			if n > 0 {
				s.dangling = true
			}
		} else {
			ev.Data = nil
		}
		s.events = append(s.events, ev)
		return n, s.deviceError("write")
	}
	s.events = append(s.events, ev)
	if len(p) > 0 {
		s.dangling = p[len(p)-1] != '\n'
	}
	return len(p), nil
}

func (s *recSink) Sync() error {
	s.mu.Lock()
	defer s.mu.Unlock()
	s.nSync++
	ev := sinkEvent{Kind: "sync", FileSame: s.fileSame()}
	if s.nSync == s.failSync {
		ev.Failed = true
		s.syncFail = true
		s.events = append(s.events, ev)
		return s.deviceError("sync")
	}
	s.events = append(s.events, ev)
	return nil
}

type auditRecord struct {
	ID        *uint64 `json:"id"`
	Time      *string `json:"time"`
	Principal *struct {
		Hostname string   `json:"hostname"`
		IP       string   `json:"ip"`
		User     string   `json:"user"`
		Tags     []string `json:"tags"`
	} `json:"principal"`
	Action        *string `json:"action"`
	Authorized    *bool   `json:"authorized"`
	Secret        string  `json:"secret"`
	SecretVersion uint32  `json:"secretVersion"`
}

func parseRecord(line []byte) (*auditRecord, error) {
	if len(line) == 0 || line[len(line)-1] != '\n' || bytes.Count(line, []byte("\n")) != 1 {
		return nil, fmt.Errorf("not exactly one newline-terminated line: %q", line)
	}
	var r auditRecord
	dec := json.NewDecoder(bytes.NewReader(line))
	// additional fields are fine: the property names the ones a record must carry
	if err := dec.Decode(&r); err != nil {
		return nil, fmt.Errorf("%v in %q", err, line)
	}
	if r.ID == nil || r.Time == nil || r.Principal == nil || r.Action == nil || r.Authorized == nil {
		return nil, fmt.Errorf("record lacks a mandatory field: %q", line)
	}
	return &r, nil
}

type AuditCase struct {
	Pre       []dbx.Op       `json:"pre"`
	Rules     [][]model.Rule `json:"rules"` // callers 1..n
	Ops       []dbx.Op       `json:"ops"`
	FailWrite int            `json:"fail_write"` // counted over the records of Ops
	Partial   bool           `json:"partial"`
	FailSync  int            `json:"fail_sync"`
	// from this call on (1-based; 0 = never) the audit writer has been closed - twice - while the server
	// still answers requests (the drain at shutdown): from then on a request either still gets its
	// complete record into the log or fails closed
	CloseAt   int    `json:"close_at,omitempty"`
	ErrKind   string `json:"err_kind,omitempty"`  // what the failing device reports: "" (a plain error) | enospc | eio | edquot
	HTTP      bool   `json:"http"`                // calls go through the registered HTTP handlers and setec.Client (WhoIs table), not db.DB directly
	Forwarded bool   `json:"forwarded,omitempty"` // HTTP only: every request carries forwarding headers naming some other address
	// Polls > 0: before the calls, a client polls "a" that many times with the version it holds (what a
	// store does all day long): not one of these unchanged conditional gets writes a record, the
	// hundredth as little as the first
	Polls int `json:"polls,omitempty"`
}

// two names beyond any plausible line-length budget that differ only in their last byte
var c06LongA, c06LongB = "dev/" + strings.Repeat("L", 1100) + "1", "dev/" + strings.Repeat("L", 1100) + "2"
var c06Names = append(append([]string{}, c01Names...), c06LongA, c06LongB)

func genAuditCase(rt *rapid.T) AuditCase {
	c := AuditCase{HTTP: rapid.IntRange(0, 2).Draw(rt, "http") == 0}
	c.Forwarded = c.HTTP && rapid.Bool().Draw(rt, "forwarded")
	c.Pre = rapid.SliceOfN(rapid.Custom(func(rt *rapid.T) dbx.Op {
		return dbx.GenOp(rt, c06Names, []string{"put", "put", "put", "activate", "delver"}, 1)
	}), h.LenBias(rt, 0, 8), 8).Draw(rt, "pre")
	if k := dbx.GenDeep(rt); k > 0 {
		// the secret the calls are about has been rotated many times before
		c.Pre = append(dbx.DeepPuts("a", k), c.Pre...)
	}
	n := rapid.IntRange(1, 2).Draw(rt, "ncallers")
	for i := 0; i < n; i++ {
		rs := genRuleSet(rt)
		if rapid.Bool().Draw(rt, "broad") {
			rs = append(rs, model.Rule{Action: rapid.SliceOfNDistinct(rapid.SampledFrom(model.AllActions), 2, 5, func(s string) string { return s }).Draw(rt, "broadacts"), Secret: []string{"*"}})
		}
		c.Rules = append(c.Rules, rs)
	}
	c.Ops = rapid.SliceOfN(rapid.Custom(func(rt *rapid.T) dbx.Op {
		return dbx.GenOp(rt, c06Names, append([]string{"cond", "cond"}, c01Kinds...), n+1)
	}), h.LenBias(rt, 1, 25), 25).Draw(rt, "ops")
	switch rapid.IntRange(0, 3).Draw(rt, "fault") {
	case 1:
		c.FailWrite = rapid.IntRange(1, len(c.Ops)).Draw(rt, "failwrite")
		c.Partial = rapid.Bool().Draw(rt, "partial")
	case 2:
		c.FailSync = rapid.IntRange(1, len(c.Ops)).Draw(rt, "failsync")
	}
	if c.FailWrite > 0 || c.FailSync > 0 {
		c.ErrKind = rapid.SampledFrom([]string{"", "", "enospc", "enospc", "eio", "edquot"}).Draw(rt, "errkind")
	}
	if c.FailWrite == 0 && c.FailSync == 0 && rapid.IntRange(0, 5).Draw(rt, "closeat") == 0 {
		c.CloseAt = rapid.IntRange(1, len(c.Ops)).Draw(rt, "closeatidx")
	}
	if rapid.IntRange(0, 5).Draw(rt, "withpolls") == 0 {
		c.Polls = rapid.IntRange(100, 400).Draw(rt, "polls")
	}
	return c
}

func runC06(t *testing.T, c AuditCase) (*h.Violation, h.Info) {
	var info h.Info
	dir := caseDir(t)
	defer os.RemoveAll(dir)
	path := filepath.Join(dir, "db")
	sink := &recSink{}
	aw := audit.New(sink)
	d, err := db.Open(path, dbx.DummyKey(), aw)
	if err != nil {
		return h.V("harness", "open: %v", err), info
	}
	su := dbx.Super()
	callers := []dbx.CallerM{su}
	for i, r := range c.Rules {
		callers = append(callers, dbx.Restricted(i+1, r))
	}
	var tgt dbx.Target = dbx.DBTarget{D: d}
	var ht *dbx.HTTPTarget
	if c.HTTP {
		ht, err = dbx.NewHTTP(d, callers)
		if err != nil {
			return h.V("harness", "server: %v", err), info
		}
		if c.Forwarded {
			ht.Headers = map[string]string{"X-Forwarded-For": "203.0.113.9, 100.64.0.1", "X-Real-Ip": "203.0.113.9", "Forwarded": "for=203.0.113.9"}
			info.Class("requests-carry-forwarding-headers")
		}
		tgt = ht
		info.Class("through-http-handlers")
		for _, r := range c.Rules {
			if len(r) == 0 {
				info.Class("http-caller-without-any-grant")
			}
		}
	}
	tr := dbx.NewTracker()
	tr.Wire = c.HTTP
	if len(c.Pre) > 60 {
		info.Class("a-secret-with-more-than-60-versions")
	}
	for i, op := range c.Pre {
		ver := tr.Resolve(op)
		want := tr.Expect(su.Rules, op, ver)
		if diff := dbx.Compare(tgt.Do(su, op, ver), want); diff != "" {
			return h.V("superuser-prestate", "pre step %d %s: %s", i, op, diff), info
		}
	}
	// arm the sink
	sink.mu.Lock()
	sink.dbPath = path
	sink.nWrite, sink.nSync = 0, 0
	sink.failWrite, sink.partial, sink.failSync, sink.errKind = c.FailWrite, c.Partial, c.FailSync, c.ErrKind
	sink.events = nil
	sink.mu.Unlock()
	sawDenial, sawDelivery, sawUnchanged, sawFaultOnMutation := false, false, false, false
	writerClosed := false
	if sa := tr.M["a"]; c.Polls > 0 && sa != nil && sa.Active != 0 {
		info.Class("a-hundred-or-more-unchanged-polls-in-a-row")
		pre, _ := os.ReadFile(path)
		sink.mu.Lock()
		sink.pre = pre
		sink.mu.Unlock()
		for j := 0; j < c.Polls; j++ {
			op := dbx.Op{Kind: "cond", Name: "a", VSel: "active"}
			got := tgt.Do(su, op, sa.Active)
			sink.mu.Lock()
			nev := len(sink.events)
			sink.mu.Unlock()
			if got.Class != model.NotChanged {
				return h.V("result-equals-model", "poll %d of %d: a conditional get of \"a\" with its active version %d answered %s, want not-changed", j+1, c.Polls, sa.Active, got), info
			}
			if nev != 0 {
				return h.V("unchanged-conditional-get-writes-no-record", "poll %d of %d: an unchanged conditional get of \"a\" (version %d) reached the audit device (%d write/sync events)", j+1, c.Polls, sa.Active, nev), info
			}
		}
	}
	for i, op := range c.Ops {
		if op.Caller >= len(callers) {
			op.Caller = 0
		}
		caller := callers[op.Caller]
		ver := tr.Resolve(op)
		if c.CloseAt > 0 && i+1 == c.CloseAt {
			aw.Close()
			aw.Close()
			writerClosed = true
			info.Class("audit-writer-closed-while-serving")
		}
		pre, _ := os.ReadFile(path)
		sink.mu.Lock()
		sink.pre = pre
		sink.events = nil
		sink.syncFail = false
		sink.fused = false
		sink.mu.Unlock()
		shadow := tr.Clone()
		want := shadow.Expect(caller.Rules, op, ver)
		var got dbx.Result
		if ht != nil && op.Kind == "list" && (i+len(c.Ops))%2 == 0 {
			// the same listing through the side door: the HTML page the server shows at "/" (a person
			// with a browser on the tailnet). What it shows is not parsed; that it was recorded is the point.
			req := httptest.NewRequest("GET", "/", nil)
			req.RemoteAddr = dbx.AddrOf(caller)
			w := httptest.NewRecorder()
			ht.Mux.ServeHTTP(w, req)
			info.Class("listing-through-the-html-page")
			if w.Code == 200 {
				got = want
			} else {
				got = dbx.Result{Class: model.Other, Err: fmt.Sprintf("GET / answered %d", w.Code), IsList: true}
			}
		} else {
			got = tgt.Do(caller, op, ver)
		}
		sink.mu.Lock()
		events := sink.events
		broken, syncFail, fused := sink.broken, sink.syncFail, sink.fused
		sink.mu.Unlock()

		// what must have been recorded
		allowed := op.Kind == "list" || model.Allow(caller.Rules, dbx.ActionOf(op.Kind), op.Name)
		malformed := (op.Kind == "put" || op.Kind == "activate") && op.Name == ""
		if c.HTTP && op.Name == "" && op.Kind != "list" {
			malformed = true // the front door may refuse a request without a name before any decision is made
		}
		minRec, maxRec := 1, 1
		switch {
		case malformed:
			minRec, maxRec = 0, 1
		case op.Kind == "cond" && allowed:
			switch want.Class {
			case model.NotChanged:
				minRec, maxRec = 0, 0
				sawUnchanged = true
			case model.NotFound:
				minRec, maxRec = 0, 1
			}
		}
		// collect what was recorded during this call
		var written []byte
		nWrites, lastWriteIdx, syncAfter, writeFailed := 0, -1, false, false
		for j, ev := range events {
			if ev.Kind == "write" {
				nWrites++
				written = append(written, ev.Data...)
				lastWriteIdx = j
				if ev.Failed {
					writeFailed = true
				}
				if !ev.FileSame {
					return h.V("record-precedes-effect", "step %d %s: the database file had already changed when the audit record was being written", i, op), info
				}
			} else if ev.Kind == "sync" {
				if lastWriteIdx >= 0 && j > lastWriteIdx && !ev.Failed {
					syncAfter = true
				}
				if !ev.FileSame {
					return h.V("record-precedes-effect", "step %d %s: the database file had already changed when the audit log was being synced", i, op), info
				}
			}
		}
		faultNow := writeFailed || syncFail
		if faultNow && op.Mutating() && allowed {
			sawFaultOnMutation = true
		}
		delivered := got.HasVal || got.Info != nil || (got.IsList && got.Class == model.OK)
		recordOK := false
		if !writeFailed && nWrites > 0 {
			rec, perr := parseRecord(written)
			if perr != nil {
				return h.V("one-complete-json-line", "step %d %s: %v", i, op, perr), info
			}
			wantVer := uint32(0)
			switch op.Kind {
			case "getver", "activate", "delver":
				wantVer = ver
			}
			wantAction, wantSecret := dbx.ActionOf(op.Kind), op.Name
			if op.Kind == "list" {
				wantAction, wantSecret = "info", ""
			}
			p := rec.Principal
			if *rec.Action != wantAction || rec.Secret != wantSecret || rec.SecretVersion != wantVer || *rec.Authorized != allowed ||
				p.Hostname != caller.Host || p.IP != caller.IP || p.User != caller.User || strings.Join(p.Tags, ",") != strings.Join(caller.Tags, ",") {
				return h.V("record-names-caller-action-secret-version-authorized", "step %d %s (version arg %d) by %+v: record %s; want action=%s secret=%q version=%d authorized=%v", i, op, ver, caller, written, wantAction, wantSecret, wantVer, allowed), info
			}
			recordOK = syncAfter && !fused // appended to a torn fragment: no complete line of its own in the log
			if fused {
				info.Class("record-appended-to-a-torn-fragment")
			}
			if !syncAfter && !syncFail {
				return h.V("record-synced", "step %d %s: record written but no successful Sync followed before the call returned (events %d)", i, op, len(events)), info
			}
		}
		nRec := 0
		if recordOK {
			nRec = 1
		}
		healthy := !broken && !faultNow && !writerClosed
		if healthy {
			if nRec < minRec || nRec > maxRec || nWrites > maxRec {
				clause := "every-disclosure-mutation-denial-recorded"
				if maxRec == 0 {
					clause = "unchanged-conditional-get-writes-no-record"
				}
				return h.V(clause, "step %d %s by caller %d (allowed=%v, outcome %s): %d complete synced records (%d writes), want %d..%d; written=%q", i, op, op.Caller, allowed, got, nRec, nWrites, minRec, maxRec, written), info
			}
			if diff := dbx.Compare(got, want); diff != "" {
				return h.V("result-equals-model", "step %d %s: %s", i, op, diff), info
			}
			tr = shadow
		} else {
			// the audit sink failed now or earlier: fail closed unless a proper record exists
			needs := minRec == 1 || (delivered && op.Kind == "cond")
			if needs && !recordOK && op.Kind == "cond" && allowed && want.Class == model.OK && got.Class == model.NotChanged {
				// "not changed" is a regular answer, not a failure: the poller would go on believing that
				// the version it holds is current
				return h.V("fail-closed", "step %d %s: the audit record for a conditional get that finds a newer version could not be written (write failed=%v sync failed=%v, sink broken=%v) and the call answered 'not changed' - the request must FAIL", i, op, writeFailed, syncFail, broken), info
			}
			if needs && !recordOK {
				if got.Class == model.OK || delivered {
					return h.V("fail-closed", "step %d %s: the audit record could not be written/synced (write failed=%v sync failed=%v, sink broken=%v) but the call succeeded: %s", i, op, writeFailed, syncFail, broken, got), info
				}
				// state must be unchanged: keep the old model
			} else if got.Class == want.Class || (want.AltOther && got.Class == model.Other) {
				if diff := dbx.Compare(got, want); diff != "" {
					return h.V("result-equals-model", "step %d %s: %s", i, op, diff), info
				}
				tr = shadow
			} else if got.Class == model.OK || delivered {
				return h.V("result-equals-model", "step %d %s with failing sink: %s, want %s", i, op, got, want), info
			}
		}
		if want.Class == model.Denied {
			sawDenial = true
		}
		if delivered {
			sawDelivery = true
		}
		// state check through an independent handle (does not touch the sink)
		d2, err := dbx.OpenDiscard(path, dbx.DummyKey())
		if err != nil {
			return h.V("harness", "reopen: %v", err), info
		}
		dump, err := dbx.Dump(d2)
		if err != nil {
			return h.V("state-consistent", "step %d %s: %v", i, op, err), info
		}
		if diff := dbx.DumpDiff(dump, tr.M); diff != "" {
			clause := "state-equals-model"
			if !healthy {
				clause = "fail-closed-no-state-change"
			}
			return h.V(clause, "step %d %s (outcome %s, sink write failed=%v sync failed=%v broken=%v): on disk %s", i, op, got, writeFailed, syncFail, broken, diff), info
		}
	}
	for _, kv := range []struct {
		b bool
		c string
	}{{sawDenial, "denial"}, {sawDelivery, "delivery"}, {sawUnchanged, "unchanged-poll"}, {sawFaultOnMutation, "sink-fault-hits-allowed-mutation"}, {c.FailWrite > 0, "plan-fail-write"}, {c.FailSync > 0, "plan-fail-sync"}} {
		if kv.b {
			info.Class(kv.c)
		}
	}
	info.NonTrivial = sawDenial && sawDelivery && (sawUnchanged || sawFaultOnMutation)
	return nil, info
}

var c06 = &h.Campaign[AuditCase]{
	Prop: "C06", Sub: "audit",
	Rule:  "rapid: C01-style scenarios (superuser pre-history, 1-2 restricted callers with generated rule sets, 1-25 calls of every kind incl. conditional gets) on db.DB - or, one case in three, through the registered HTTP handlers and setec.Client with a WhoIs table, where a caller without rules is a peer without any grant - over names that include two of 1 105 bytes differing in the last byte, with a recording audit sink (every Write/Sync logged together with whether the database file still equals its pre-call bytes) and a fault plan: the k-th Write fails (nothing or half the record written) or the k-th Sync fails, k anywhere in the history; per call the set of required records comes from the ACL+map model; in one case of six the history is preceded by 100-400 unchanged conditional gets of one secret in a row (none may reach the audit device); non-trivial = scenario has a denial AND a delivery AND (an unchanged conditional get OR an injected sink fault that hits an allowed mutation); distinct by scenario",
	Quick: 6000, Thorough: 800000,
	Gen: genAuditCase,
	Run: runC06,
}

func init() { c06.Register(); c06conc.Register() }

func TestC06Audit(t *testing.T) { c06.Check(t) }

// ---- concurrent appenders on a real audit file --------------------------------

type ConcAuditCase struct {
	Rules  [][]model.Rule `json:"rules"` // one restricted caller per goroutine
	Progs  [][]dbx.Op     `json:"progs"`
	Reopen bool           `json:"reopen"` // half-way, everything stops, the audit file is closed and opened again (a server restart)
}

func runC06Conc(t *testing.T, c ConcAuditCase) (*h.Violation, h.Info) {
	var info h.Info
	dir := caseDir(t)
	defer os.RemoveAll(dir)
	logPath := filepath.Join(dir, "audit.log")
	w, err := audit.NewFile(logPath)
	if err != nil {
		return h.V("harness", "audit file: %v", err), info
	}
	d, err := db.Open(filepath.Join(dir, "db"), dbx.DummyKey(), w)
	if err != nil {
		return h.V("harness", "open: %v", err), info
	}
	type key struct {
		host, action, secret string
		ver                  uint32
		auth                 bool
	}
	want := map[key]int{}
	total := 0
	phases := [][2]int{{0, 100}}
	if c.Reopen {
		phases = [][2]int{{0, 50}, {50, 100}}
		info.Class("audit-file-reopened-half-way")
	}
	for pi, ph := range phases {
		if pi > 0 {
			if err := w.Close(); err != nil {
				return h.V("harness", "close audit log: %v", err), info
			}
			if w, err = audit.NewFile(logPath); err != nil {
				return h.V("harness", "audit file: %v", err), info
			}
			if d, err = db.Open(filepath.Join(dir, "db"), dbx.DummyKey(), w); err != nil {
				return h.V("harness", "open: %v", err), info
			}
		}
		var wg sync.WaitGroup
		start := make(chan struct{})
		for g, whole := range c.Progs {
			prog := whole[len(whole)*ph[0]/100 : len(whole)*ph[1]/100]
			caller := dbx.Restricted(g+1, c.Rules[g%len(c.Rules)])
			caller.Host = fmt.Sprintf("g%d.example.ts.net", g)
			for _, op := range prog {
				k := key{host: caller.Host, action: dbx.ActionOf(op.Kind), secret: op.Name}
				if op.Kind == "list" {
					k.action, k.secret, k.auth = "info", "", true
				} else {
					k.auth = model.Allow(caller.Rules, k.action, op.Name)
				}
				switch op.Kind {
				case "getver", "activate", "delver":
					k.ver = uint32(op.VArg)
				}
				want[k]++
				total++
			}
			wg.Add(1)
			go func() {
				defer wg.Done()
				<-start
				tgt := dbx.DBTarget{D: d}
				for _, op := range prog {
					tgt.Do(caller, op, uint32(op.VArg))
				}
			}()
		}
		close(start)
		wg.Wait()
	}
	if err := w.Close(); err != nil {
		return h.V("harness", "close audit log: %v", err), info
	}
	f, err := os.Open(logPath)
	if err != nil {
		return h.V("harness", "%v", err), info
	}
	defer f.Close()
	got := map[key]int{}
	n := 0
	rd := bufio.NewReader(f)
	for {
		line, err := rd.ReadBytes('\n')
		if len(line) > 0 {
			rec, perr := parseRecord(line)
			if perr != nil {
				return h.V("records-never-interleaved-or-truncated", "line %d of the audit file: %v", n+1, perr), info
			}
			got[key{rec.Principal.Hostname, *rec.Action, rec.Secret, rec.SecretVersion, *rec.Authorized}]++
			n++
		}
		if err != nil {
			break
		}
	}
	if n != total {
		return h.V("records-never-lost", "%d calls that must be recorded, %d lines in the audit file", total, n), info
	}
	var keys []string
	for k, c := range want {
		if got[k] != c {
			keys = append(keys, fmt.Sprintf("%+v: %d records, want %d", k, got[k], c))
		}
	}
	sort.Strings(keys)
	if len(keys) > 0 {
		return h.V("records-never-lost", "audit file differs from the calls made: %s", strings.Join(keys, "; ")), info
	}
	info.NonTrivial = len(c.Progs) >= 2 && total >= 10
	info.Class(fmt.Sprintf("goroutines-%d", len(c.Progs)))
	return nil, info
}

var c06conc = &h.Campaign[ConcAuditCase]{
	Prop: "C06", Sub: "concurrent",
	Rule:  "rapid: 2-8 goroutines x 5-40 calls (all kinds whose logging does not depend on state: get, get-version, info, put, activate, delete-version, delete, list; allowed and denied by generated rule sets) started together on one db.DB writing to a real audit.NewFile log (in one case of three everything stops half-way, the log is closed and opened again and the database re-opened with it), under the race detector; afterwards every line of the file must be one complete record and the multiset of (caller, action, secret, version, authorized) must equal the calls made; non-trivial = >= 2 goroutines and >= 10 calls; distinct by scenario",
	Quick: 150, Thorough: 20000,
	Gen: func(rt *rapid.T) ConcAuditCase {
		g := rapid.IntRange(2, 8).Draw(rt, "goroutines")
		c := ConcAuditCase{Reopen: rapid.IntRange(0, 2).Draw(rt, "reopen") == 0}
		for i := 0; i < rapid.IntRange(1, 3).Draw(rt, "nrules"); i++ {
			c.Rules = append(c.Rules, genRuleSet(rt))
		}
		for i := 0; i < g; i++ {
			c.Progs = append(c.Progs, rapid.SliceOfN(rapid.Custom(func(rt *rapid.T) dbx.Op {
				o := dbx.GenOp(rt, []string{"a", "b", "dev/a", "a\nb", "prod/a", c06LongA, c06LongB}, []string{"put", "put", "activate", "delver", "del", "get", "getver", "info", "list"}, 1)
				o.VSel, o.VArg = "abs", rapid.IntRange(0, 3).Draw(rt, "v")
				return o
			}), 5, 40).Draw(rt, "prog"))
		}
		return c
	},
	Run: runC06Conc,
}

func TestC06RaceConcurrent(t *testing.T) { c06conc.Check(t) }
