package dbp

import (
	"bytes"
	"encoding/base64"
	"encoding/hex"
	"fmt"
	"os"
	"path/filepath"
	"strings"
	"testing"

	"github.com/tailscale/setec/audit"
	"github.com/tailscale/setec/db"
	"pgregory.net/rapid"
	"verifharness/dbx"
	"verifharness/h"
	"verifharness/model"
)

// ---- C01: no effect or disclosure without a matching grant -----------------

type ACLCase struct {
	Pre   []dbx.Op     `json:"pre"`   // superuser history building the state
	Rules []model.Rule `json:"rules"` // the restricted caller's grant
	Ops   []dbx.Op     `json:"ops"`   // calls by the restricted caller
	HTTP  bool         `json:"http"`  // through the registered handlers + Client, or db.DB directly
	// further restricted callers (op.Caller 2, 3, 4): two tagged devices (no user identity) and one
	// node of the SAME user as caller 1 holding a different grant
	Others [][]model.Rule `json:"others,omitempty"`
	// from this call on (1-based; 0 = never) the audit device is failing: whatever that does to
	// calls that are allowed, a call without a grant still reveals and changes nothing
	AuditDownFrom int `json:"audit_down_from,omitempty"`
	// HTTP only: the restricted callers reach the server from the loopback interface (a local proxy in
	// front of it), and every request carries forwarding headers that name the superuser's address
	Loopback bool `json:"loopback,omitempty"`
	// HTTP only: during these calls (0-based) the identity lookup fails - the local tailscaled is away.
	// Nobody can be identified, so nothing is revealed or changed, whoever asked a moment ago.
	WhoisDown []int `json:"whois_down,omitempty"`
	// HTTP only: before these calls (0-based) the superuser asks for a listing and a stored value and
	// hangs up while the answer is being written. What was not sent to HIM is sent to nobody.
	Hangups []int `json:"hangups,omitempty"`
}

var c01Names = []string{"a", "b", "dev/a", "dev/b", "prod/a", "a*", "a\nb", "_internal/x", "", "a", "dev/a", "a ", " dev/a", "_internal", "prod/b|a", "b|a",
	// spellings that a path cleaner would map onto another secret's name: names are opaque strings
	"dev/../prod/a", "dev/a/", "dev//a", "./a", "dev/./a", "prod/a/..",
	// spellings that differ from another secret's name in letter case only
	"A", "Dev/a", "PROD/A", "DEV/B"}
var c01Patterns = []string{"*", "dev/*", "*a", "d*/a", "**", "", "a*", "*/*", "prod/*", "_internal/*", "a\n*", "b",
	// literal text on both sides of a '*' whose pieces would overlap in an existing name
	"a*a", "prod/*/a", "dev/*/a", "dev/a*a", "b*b",
	// characters that mean something to a regular expression and nothing to a glob
	"dev/*|b", "b|a", "(a)", "a+", "[ab]", "dev/.", "a?", "^a$"}
var c01Actions = []string{"get", "info", "put", "activate", "delete", "get", "info", "list", "Get", "*"}
var c01Kinds = []string{"put", "activate", "delver", "del", "get", "getver", "cond", "info", "list", "get", "info"}

// A long-lived server evaluates many DIFFERENT patterns in one process (every node's grants): a family
// of numbered patterns, each allowing one of the ordinary names by a route of its own, makes the set of
// distinct patterns evaluated by one test process run into the hundreds.
func genFamilyPattern(rt *rapid.T) string {
	k := rapid.IntRange(0, 1499).Draw(rt, "family-k")
	return fmt.Sprintf(rapid.SampledFrom([]string{"team%04d/*", "*%04d", "dev/a*%04d*", "dev/*", "*a", "prod/*"}).Draw(rt, "family-shape"), k)
}

func genRuleSet(rt *rapid.T) []model.Rule {
	return rapid.SliceOfN(rapid.Custom(func(rt *rapid.T) model.Rule {
		return model.Rule{
			Action: rapid.SliceOfN(rapid.SampledFrom(c01Actions), 0, 4).Draw(rt, "actions"),
			Secret: rapid.SliceOfN(rapid.OneOf(rapid.SampledFrom(c01Patterns), rapid.SampledFrom(c01Patterns), rapid.SampledFrom(c01Names), rapid.SampledFrom(c01Names), rapid.Custom(genFamilyPattern)), rapid.SampledFrom([]int{0, 1, 1, 1, 1, 1, 1, 1}).Draw(rt, "min-patterns"), 3).Draw(rt, "patterns"),
		}
	}), 0, 3).Draw(rt, "rules")
}

func genACLCase(rt *rapid.T) ACLCase {
	c := ACLCase{HTTP: rapid.Bool().Draw(rt, "http")}
	c.Pre = rapid.SliceOfN(rapid.Custom(func(rt *rapid.T) dbx.Op {
		return dbx.GenOp(rt, c01Names, []string{"put", "put", "put", "put", "activate", "delver", "del"}, 1)
	}), h.LenBias(rt, 0, 14), 14).Draw(rt, "pre")
	c.Rules = genRuleSet(rt)
	if rapid.IntRange(0, 2).Draw(rt, "withothers") == 0 {
		n := rapid.IntRange(1, 3).Draw(rt, "nothers")
		for i := 0; i < n; i++ {
			c.Others = append(c.Others, genRuleSet(rt))
		}
	}
	if rapid.IntRange(0, 4).Draw(rt, "auditdown") == 0 {
		c.AuditDownFrom = rapid.IntRange(1, 12).Draw(rt, "auditdownfrom")
	}
	if c.HTTP {
		c.Loopback = rapid.IntRange(0, 2).Draw(rt, "loopback") == 0
		if rapid.IntRange(0, 2).Draw(rt, "whoisdown") == 0 {
			c.WhoisDown = rapid.SliceOfN(rapid.IntRange(1, 24), 1, 4).Draw(rt, "whoisdownat")
		}
		if rapid.IntRange(0, 2).Draw(rt, "withhangups") == 0 {
			c.Hangups = rapid.SliceOfN(rapid.IntRange(0, 24), 1, 5).Draw(rt, "hangups")
		}
	}
	kinds := c01Kinds
	if len(c.Others) > 0 {
		kinds = append(append([]string{}, c01Kinds...), "list", "list", "list")
	}
	c.Ops = rapid.SliceOfN(rapid.Custom(func(rt *rapid.T) dbx.Op {
		o := dbx.GenOp(rt, c01Names, kinds, 1)
		o.Caller = 1 + rapid.IntRange(0, len(c.Others)).Draw(rt, "caller")
		return o
	}), h.LenBias(rt, 1, 25), 25).Draw(rt, "ops")
	return c
}

// encodings of a secret value that must not show up where the value is not due.
func encodings(v []byte) [][]byte {
	if len(v) < 6 {
		return nil // too short to search for without false hits
	}
	out := [][]byte{v, []byte(hex.EncodeToString(v)), []byte(strings.ToUpper(hex.EncodeToString(v)))}
	for _, enc := range []*base64.Encoding{base64.StdEncoding, base64.URLEncoding} {
		for off := 0; off < 3; off++ {
			// all three alignments: encode with 0,1,2 bytes of padding in front and cut the affected head/tail
			pad := append(bytes.Repeat([]byte{0}, off), v...)
			s := enc.EncodeToString(pad)
			head := (off*8 + 5) / 6
			tail := len(s) - 4
			if len(pad)%3 == 0 {
				tail = len(s)
			}
			if tail-head >= 6 {
				out = append(out, []byte(s[head:tail]))
			}
		}
	}
	return out
}

func containsAny(hay []byte, values [][]byte) string {
	for _, v := range values {
		for _, e := range encodings(v) {
			if bytes.Contains(hay, e) {
				return string(v)
			}
		}
	}
	return ""
}

func runC01(t *testing.T, c ACLCase) (*h.Violation, h.Info) {
	var info h.Info
	dir := caseDir(t)
	defer os.RemoveAll(dir)
	sink := &flakyAudit{}
	d, err := db.Open(filepath.Join(dir, "db"), dbx.DummyKey(), audit.New(sink))
	if err != nil {
		return h.V("harness", "open: %v", err), info
	}
	twin, err := dbx.OpenDiscard(filepath.Join(dir, "twin"), dbx.DummyKey()) // stays empty
	if err != nil {
		return h.V("harness", "open: %v", err), info
	}
	su := dbx.Super()
	low := dbx.Restricted(1, c.Rules)
	callers := []dbx.CallerM{su, low}
	for i, rs := range c.Others {
		var o dbx.CallerM
		switch i {
		case 0:
			o = dbx.Restricted(2, rs) // tagged
		case 1:
			o = dbx.Restricted(4, rs) // tagged
		default:
			o = dbx.Restricted(5, rs) // another node of caller 1's user
			o.User = low.User
		}
		callers = append(callers, o)
	}
	if len(c.Others) > 0 {
		info.Class(fmt.Sprintf("restricted-callers-%d", 1+len(c.Others)))
	}
	if c.HTTP && c.Loopback {
		for i := 1; i < len(callers); i++ {
			callers[i].IP = fmt.Sprintf("127.0.0.%d", i)
		}
		info.Class("restricted-callers-on-the-loopback-interface")
	}
	keep := &dbx.Retained{}
	var tgt, twinTgt dbx.Target = dbx.DBTarget{D: d, Keep: keep}, dbx.DBTarget{D: twin}
	var ht, htTwin *dbx.HTTPTarget
	tr := dbx.NewTracker()
	if c.HTTP {
		info.Class("path-http")
		ht, err = dbx.NewHTTP(d, callers)
		if err != nil {
			return h.V("harness", "server: %v", err), info
		}
		htTwin, _ = dbx.NewHTTP(twin, callers)
		tgt, twinTgt = ht, htTwin
		tr.Wire = true
		if c.Loopback {
			fwd := map[string]string{"X-Forwarded-For": su.IP, "X-Real-Ip": su.IP, "Forwarded": "for=" + su.IP}
			ht.Headers, htTwin.Headers = fwd, fwd
		}
	} else {
		info.Class("path-db")
	}
	var putValues [][]byte
	for i, op := range c.Pre {
		ver := tr.Resolve(op)
		want := tr.Expect(su.Rules, op, ver)
		got := tgt.Do(su, op, ver)
		if diff := dbx.Compare(got, want); diff != "" {
			return h.V("superuser-prestate", "pre step %d %s: %s", i, op, diff), info
		}
		if op.Kind == "put" {
			putValues = append(putValues, op.Val)
		}
	}
	wild := false
	for _, r := range c.Rules {
		for _, p := range r.Secret {
			if strings.Contains(p, "*") {
				wild = true
			}
		}
	}
	sawDeniedExisting, sawAllowed := false, false
	for i, op := range c.Ops {
		if op.Caller < 1 || op.Caller >= len(callers) {
			op.Caller = 1
		}
		low := callers[op.Caller]
		ver := tr.Resolve(op)
		if ht != nil && !sink.fail {
			for _, hu := range c.Hangups {
				if hu == i {
					// the superuser's client goes away in the middle of two answers
					ht.BreakAfter = 1 + (i*7)%23
					ht.Do(su, dbx.Op{Kind: "list"}, 0)
					for _, n := range tr.M.Names() {
						ht.BreakAfter = 3 + (i*5)%31
						ht.Do(su, dbx.Op{Kind: "get", Name: n}, 0)
						break
					}
					info.Class("a-client-hung-up-while-its-answer-was-being-written")
				}
			}
		}
		if c.AuditDownFrom > 0 && i+1 >= c.AuditDownFrom {
			sink.fail = true
			info.Class("audit-device-down")
			shadow := tr.Clone()
			want := shadow.Expect(low.Rules, op, ver)
			got := tgt.Do(low, op, ver)
			delivered := got.HasVal || got.Info != nil || (got.IsList && len(got.List) > 0)
			if want.Class == model.Denied {
				if got.Class == model.OK || delivered {
					return h.V("refused-without-grant", "step %d %s by caller %d with rules %+v while the audit device is failing: %s - a call without a grant must reveal and change nothing, whatever else is broken", i, op, op.Caller, low.Rules, got), info
				}
			} else if got.Class == model.OK {
				tr = shadow // it went through (whether it may is C06's business)
			}
			d2, err := dbx.OpenDiscard(filepath.Join(dir, "db"), dbx.DummyKey())
			if err != nil {
				return h.V("harness", "reopen: %v", err), info
			}
			if dump, err := dbx.Dump(d2); err != nil || dbx.DumpDiff(dump, tr.M) != "" {
				return h.V("denied-call-changes-nothing", "step %d %s by caller %d (outcome %s, model %s) while the audit device is failing: %v %s", i, op, op.Caller, got, want, err, dbx.DumpDiff(dump, tr.M)), info
			}
			continue
		}
		if c.HTTP {
			down := false
			for _, k := range c.WhoisDown {
				down = down || k == i
			}
			if down {
				ht.WhoIsDown.Store(true)
				got := tgt.Do(low, op, ver)
				ht.WhoIsDown.Store(false)
				info.Class("identity-lookup-failed-during-a-call")
				if got.Class == model.OK || got.HasVal || got.Info != nil || len(got.List) > 0 {
					return h.V("refused-without-grant", "step %d %s by caller %d while the identity lookup fails (nobody can be identified, whatever was known about that address a moment ago): %s", i, op, op.Caller, got), info
				}
				d2, err := dbx.OpenDiscard(filepath.Join(dir, "db"), dbx.DummyKey())
				if err != nil {
					return h.V("harness", "reopen: %v", err), info
				}
				if dump, err := dbx.Dump(d2); err != nil || dbx.DumpDiff(dump, tr.M) != "" {
					return h.V("denied-call-changes-nothing", "step %d %s by caller %d while the identity lookup fails: %v %s", i, op, op.Caller, err, dbx.DumpDiff(dump, tr.M)), info
				}
				continue
			}
		}
		existed := tr.M[op.Name] != nil
		before := tr.M.String()
		want := tr.Expect(low.Rules, op, ver)
		got := tgt.Do(low, op, ver)
		if op.Kind == "put" {
			putValues = append(putValues, op.Val)
		}
		if diff := dbx.Compare(got, want); diff != "" {
			clause := "result-equals-model"
			if want.Class == model.Denied {
				clause = "refused-without-grant"
			} else if op.Kind == "list" {
				clause = "list-shows-exactly-info-grants"
			}
			return h.V(clause, "step %d %s (version arg %d) by caller %d with rules %+v in state %s: %s", i, op, ver, op.Caller, low.Rules, before, diff), info
		}
		if want.Class == model.Denied {
			if existed {
				sawDeniedExisting = true
			}
			// identical refusal whether or not the secret exists: same call on an empty twin database
			got2 := twinTgt.Do(low, op, ver)
			same := got2.Class == got.Class && got2.Err == got.Err
			if c.HTTP {
				same = same && ht.LastStatus == htTwin.LastStatus && bytes.Equal(ht.LastBody, htTwin.LastBody)
			}
			if !same {
				return h.V("refusal-independent-of-existence", "step %d %s: refusal on a database where the secret exists=%v is %q, on an empty database %q", i, op, existed, got.Err, got2.Err), info
			}
			if c.HTTP {
				if leak := containsAny(ht.LastBody, putValues); leak != "" {
					return h.V("refusal-discloses-nothing", "step %d %s: refusal body %q contains stored value %q", i, op, ht.LastBody, leak), info
				}
			}
		} else if got.Class == model.OK {
			sawAllowed = true
		}
		if msg := keep.Unchanged(); msg != "" {
			// what one caller was shown must not turn into what another caller is shown later
			return h.V("list-shows-exactly-info-grants", "step %d %s by caller %d: %s", i, op, op.Caller, msg), info
		}
		if op.Kind == "list" && c.HTTP {
			if leak := containsAny(ht.LastBody, putValues); leak != "" {
				return h.V("list-never-values", "step %d list: body %q contains stored value %q", i, ht.LastBody, leak), info
			}
		}
		dump, err := dbx.Dump(d)
		if err != nil {
			return h.V("state-consistent", "step %d %s: dump: %v", i, op, err), info
		}
		if diff := dbx.DumpDiff(dump, tr.M); diff != "" {
			clause := "state-equals-model"
			if want.Class == model.Denied {
				clause = "denied-call-changes-nothing"
			}
			return h.V(clause, "step %d %s by caller with rules %+v: %s", i, op, low.Rules, diff), info
		}
	}
	if dump, err := dbx.Dump(twin); err != nil || len(dump) != 0 {
		return h.V("denied-call-changes-nothing", "the twin database, which only ever saw denied calls, is not empty: %v %v", dump, err), info
	}
	if sawDeniedExisting {
		info.Class("denied-on-existing")
	}
	if sawAllowed {
		info.Class("allowed-op")
	}
	if wild {
		info.Class("wildcard-rule")
	}
	info.NonTrivial = sawDeniedExisting && sawAllowed && wild
	return nil, info
}

var c01 = &h.Campaign[ACLCase]{
	Prop: "C01", Sub: "acl",
	Rule:  "rapid: a superuser pre-history (0-14 mutations) over 9 names (plain, dev/.., prod/.., one containing '*', one containing a newline, _internal/x, empty), a rule set of 0-3 rules (action multisets incl. near-miss strings, 1-3 patterns from exact names and wildcard shapes), then 1-25 calls of every kind by the restricted caller - in one case of three by up to four restricted callers with their own rule sets (two tagged devices, a second node of the first caller's user), with extra list calls; run either on db.DB or through the registered HTTP handlers + setec.Client with a WhoIs table; expected outcome from the ACL model + map model BEFORE the call; in one case of five the audit device starts failing at a generated call (refused calls must still reveal and change nothing); every denied call is repeated on an empty twin database and the refusals compared; superuser dump after every call; non-trivial = the scenario has a denied call on an existing secret AND an allowed successful call AND a wildcard pattern; distinct by scenario",
	Quick: 6000, Thorough: 1000000,
	Gen: genACLCase,
	Run: runC01,
}

func init() { c01.Register() }

func TestC01ACL(t *testing.T) { c01.Check(t) }
