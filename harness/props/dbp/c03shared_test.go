package dbp

import (
	"context"
	"io"
	"net/http"
	"os"
	"path/filepath"
	"testing"

	"github.com/tailscale/setec/audit"
	"github.com/tailscale/setec/db"
	"github.com/tailscale/setec/server"
	"pgregory.net/rapid"
	"tailscale.com/client/tailscale/apitype"
	"verifharness/dbx"
	"verifharness/h"
)

// ---- C03: a program that embeds the server AND keeps using its own database handle -------------
//
// server.Config.DB is documented as "if non-nil, the DBPath and Key fields are ignored".  A program
// that fills in all of them (a configuration struct shared with the stand-alone binary) writes
// through the HTTP API and through its own handle in turn; nothing either path acknowledged may be
// missing after a restart, whatever the order.

type SharedCase struct {
	Ops []dbx.Op `json:"ops"`
	Via []bool   `json:"via_http"` // per op: through the server's handlers (true) or the program's own handle
}

func runC03Shared(t *testing.T, c SharedCase) (*h.Violation, h.Info) {
	var info h.Info
	dir := caseDir(t)
	defer os.RemoveAll(dir)
	path := filepath.Join(dir, "db")
	key := dbx.DummyKey()
	d, err := db.Open(path, key, audit.New(io.Discard))
	if err != nil {
		return h.V("harness", "open: %v", err), info
	}
	su := dbx.Super()
	mux := http.NewServeMux()
	if _, err := server.New(context.Background(), server.Config{DB: d, DBPath: path, Key: key, AuditLog: audit.New(io.Discard), Mux: mux,
		WhoIs: func(context.Context, string) (*apitype.WhoIsResponse, error) { return dbx.WhoIsOf(su), nil }}); err != nil {
		return h.V("harness", "server.New with DB and DBPath both set: %v", err), info
	}
	ht := &dbx.HTTPTarget{Mux: mux, AddrOf: dbx.AddrOf}
	own := dbx.DBTarget{D: d}
	tr := dbx.NewTracker()
	sawHTTPWrite, sawOwnWrite := false, false
	for i, op := range c.Ops {
		viaHTTP := i < len(c.Via) && c.Via[i]
		tr.Wire = viaHTTP
		ver := tr.Resolve(op)
		before := tr.M.Render(true)
		want := tr.Expect(su.Rules, op, ver)
		var got dbx.Result
		if viaHTTP {
			got = ht.Do(su, op, ver)
		} else {
			got = own.Do(su, op, ver)
		}
		path2 := map[bool]string{true: "the HTTP API", false: "the program's own handle"}[viaHTTP]
		if diff := dbx.Compare(got, want); diff != "" {
			return h.V("result-equals-model", "step %d %s through %s: %s", i, op, path2, diff), info
		}
		if tr.M.Render(true) != before {
			if viaHTTP {
				sawHTTPWrite = true
			} else {
				sawOwnWrite = true
			}
		}
		d2, err := dbx.OpenDiscard(path, key)
		if err != nil {
			return h.V("reopen-succeeds", "after step %d %s: %v", i, op, err), info
		}
		dump, err := dbx.Dump(d2)
		if err != nil {
			return h.V("reopen-equals-model", "after step %d %s: %v", i, op, err), info
		}
		if diff := dbx.DumpDiff(dump, tr.M); diff != "" {
			return h.V("reopen-equals-model", "after step %d %s (through %s; the program gave the server its handle AND the path of the same file): a restart finds %s", i, op, path2, diff), info
		}
	}
	info.NonTrivial = sawHTTPWrite && sawOwnWrite
	return nil, info
}

var c03shared = &h.Campaign[SharedCase]{
	Prop: "C03", Sub: "shared-handle",
	Rule: "rapid: a history of 2-25 calls, each sent either through the handlers of a server configured with the program's database handle AND the path/key of the same file, or through that handle directly; results against the model, and after every call the file is reopened and compared with the acknowledged state; non-trivial = writes were acknowledged on both paths; distinct by scenario",
	Quick: 300, Thorough: 30000,
	Gen: func(rt *rapid.T) SharedCase {
		ops := dbx.GenHistory(rt, 2, 25)
		via := make([]bool, len(ops))
		for i := range via {
			via[i] = rapid.Bool().Draw(rt, "via")
		}
		return SharedCase{Ops: ops, Via: via}
	},
	Run: runC03Shared,
}

func init() { c03shared.Register() }

func TestC03SharedHandle(t *testing.T) { c03shared.Check(t) }
