package dbp

import (
	"context"
	"io"
	"net/http"
	"os"
	"path/filepath"
	"testing"
	"time"

	"github.com/tailscale/setec/audit"
	"github.com/tailscale/setec/db"
	"github.com/tailscale/setec/server"
	"pgregory.net/rapid"
	"tailscale.com/client/tailscale/apitype"
	"verifharness/dbx"
	"verifharness/h"
)

// ---- C03: a program that embeds the server AND keeps using its own database handle -------------
//
// server.Config.DB is documented as "if non-nil, the DBPath and Key fields are ignored".  A program
// that fills in all of them (a configuration struct shared with the stand-alone binary) writes
// through the HTTP API and through its own handle in turn; nothing either path acknowledged may be
// missing after a restart, whatever the order.

type SharedCase struct {
	Ops []dbx.Op `json:"ops"`
	Via []bool   `json:"via_http"` // per op: through the server's handlers (true) or the program's own handle
}

func runC03Shared(t *testing.T, c SharedCase) (*h.Violation, h.Info) {
	var info h.Info
	dir := caseDir(t)
	defer os.RemoveAll(dir)
	path := filepath.Join(dir, "db")
	key := dbx.DummyKey()
	d, err := db.Open(path, key, audit.New(io.Discard))
	if err != nil {
		return h.V("harness", "open: %v", err), info
	}
	su := dbx.Super()
	mux := http.NewServeMux()
	if _, err := server.New(context.Background(), server.Config{DB: d, DBPath: path, Key: key, AuditLog: audit.New(io.Discard), Mux: mux,
		WhoIs: func(context.Context, string) (*apitype.WhoIsResponse, error) { return dbx.WhoIsOf(su), nil }}); err != nil {
		return h.V("harness", "server.New with DB and DBPath both set: %v", err), info
	}
	ht := &dbx.HTTPTarget{Mux: mux, AddrOf: dbx.AddrOf}
	own := dbx.DBTarget{D: d}
	tr := dbx.NewTracker()
	sawHTTPWrite, sawOwnWrite := false, false
	for i, op := range c.Ops {
		viaHTTP := i < len(c.Via) && c.Via[i]
		tr.Wire = viaHTTP
		ver := tr.Resolve(op)
		before := tr.M.Render(true)
		want := tr.Expect(su.Rules, op, ver)
		var got dbx.Result
		if viaHTTP {
			got = ht.Do(su, op, ver)
		} else {
			got = own.Do(su, op, ver)
		}
		path2 := map[bool]string{true: "the HTTP API", false: "the program's own handle"}[viaHTTP]
		if diff := dbx.Compare(got, want); diff != "" {
			return h.V("result-equals-model", "step %d %s through %s: %s", i, op, path2, diff), info
		}
		if tr.M.Render(true) != before {
			if viaHTTP {
				sawHTTPWrite = true
			} else {
				sawOwnWrite = true
			}
		}
		d2, err := dbx.OpenDiscard(path, key)
		if err != nil {
			return h.V("reopen-succeeds", "after step %d %s: %v", i, op, err), info
		}
		dump, err := dbx.Dump(d2)
		if err != nil {
			return h.V("reopen-equals-model", "after step %d %s: %v", i, op, err), info
		}
		if diff := dbx.DumpDiff(dump, tr.M); diff != "" {
			return h.V("reopen-equals-model", "after step %d %s (through %s; the program gave the server its handle AND the path of the same file): a restart finds %s", i, op, path2, diff), info
		}
	}
	info.NonTrivial = sawHTTPWrite && sawOwnWrite
	return nil, info
}

var c03shared = &h.Campaign[SharedCase]{
	Prop: "C03", Sub: "shared-handle",
	Rule: "rapid: a history of 2-25 calls, each sent either through the handlers of a server configured with the program's database handle AND the path/key of the same file, or through that handle directly; results against the model, and after every call the file is reopened and compared with the acknowledged state; non-trivial = writes were acknowledged on both paths; distinct by scenario",
	Quick: 300, Thorough: 30000,
	Gen: func(rt *rapid.T) SharedCase {
		ops := dbx.GenHistory(rt, 2, 25)
		via := make([]bool, len(ops))
		for i := range via {
			via[i] = rapid.Bool().Draw(rt, "via")
		}
		return SharedCase{Ops: ops, Via: via}
	},
	Run: runC03Shared,
}

func init() { c03shared.Register() }

func TestC03SharedHandle(t *testing.T) { c03shared.Check(t) }

// ---- C03: a rolling restart ----------------------------------------------------------------------
//
// The operator starts the new server process on the same database file and stops the old one a
// little later (its context is cancelled while the new one is already answering).  Nothing the new
// instance acknowledged may be missing afterwards: an instance that is shutting down has nothing to
// say about the file any more.

type RollingCase struct {
	Before []dbx.Op `json:"before"` // through the old instance, before the new one starts
	After  []dbx.Op `json:"after"`  // through the new instance, while the old one is idle
	Later  []dbx.Op `json:"later"`  // through the new instance, after the old one was stopped
}

func runC03Rolling(t *testing.T, c RollingCase) (*h.Violation, h.Info) {
	var info h.Info
	dir := caseDir(t)
	defer os.RemoveAll(dir)
	path := filepath.Join(dir, "db")
	key := dbx.DummyKey()
	su := dbx.Super()
	start := func() (*dbx.HTTPTarget, context.CancelFunc, error) {
		ctx, cancel := context.WithCancel(context.Background())
		mux := http.NewServeMux()
		_, err := server.New(ctx, server.Config{DBPath: path, Key: key, AuditLog: audit.New(io.Discard), Mux: mux,
			WhoIs: func(context.Context, string) (*apitype.WhoIsResponse, error) { return dbx.WhoIsOf(su), nil }})
		return &dbx.HTTPTarget{Mux: mux, AddrOf: dbx.AddrOf}, cancel, err
	}
	tr := dbx.NewTracker()
	tr.Wire = true
	run := func(tgt dbx.Target, ops []dbx.Op, phase string) *h.Violation {
		for i, op := range ops {
			ver := tr.Resolve(op)
			want := tr.Expect(su.Rules, op, ver)
			if diff := dbx.Compare(tgt.Do(su, op, ver), want); diff != "" {
				return h.V("result-equals-model", "%s, step %d %s: %s", phase, i, op, diff)
			}
		}
		return nil
	}
	reopened := func(when string) *h.Violation {
		d2, err := dbx.OpenDiscard(path, key)
		if err != nil {
			return h.V("reopen-succeeds", "%s: %v", when, err)
		}
		dump, err := dbx.Dump(d2)
		if err != nil {
			return h.V("reopen-equals-model", "%s: %v", when, err)
		}
		if diff := dbx.DumpDiff(dump, tr.M); diff != "" {
			return h.V("reopen-equals-model", "%s: the file holds %s", when, diff)
		}
		return nil
	}
	old, stopOld, err := start()
	if err != nil {
		return h.V("harness", "server.New: %v", err), info
	}
	defer stopOld()
	if v := run(old, c.Before, "old instance"); v != nil {
		return v, info
	}
	neu, stopNew, err := start()
	if err != nil {
		return h.V("harness", "second server.New on the same file: %v", err), info
	}
	defer stopNew()
	b0 := tr.M.Render(true)
	if v := run(neu, c.After, "new instance, old one idle"); v != nil {
		return v, info
	}
	info.NonTrivial = tr.M.Render(true) != b0
	stopOld()
	time.Sleep(30 * time.Millisecond) // whatever the old instance does on its way out, it does it now
	if v := reopened("after the old instance was stopped (the new one had acknowledged writes meanwhile)"); v != nil {
		return v, info
	}
	if v := run(neu, c.Later, "new instance, old one gone"); v != nil {
		return v, info
	}
	return reopened("at the end"), info
}

var c03rolling = &h.Campaign[RollingCase]{
	Prop: "C03", Sub: "rolling-restart",
	Rule: "rapid: two servers constructed one after the other over the same database path (each opens the file itself); 0-8 calls through the old one, then the new one starts and takes 1-8 calls while the old one sits idle, then the old one's context is cancelled (30 ms of real time are allowed for whatever it does on its way out) and the file is reopened: it holds exactly what the new instance acknowledged; 0-5 more calls, reopened again; non-trivial = the new instance changed the state while the old one was idle; distinct by scenario",
	Quick: 120, Thorough: 8000,
	Gen: func(rt *rapid.T) RollingCase {
		all := dbx.GenHistory(rt, 3, 21)
		a := rapid.IntRange(0, min(8, len(all)-1)).Draw(rt, "before")
		b := rapid.IntRange(a+1, min(a+8, len(all))).Draw(rt, "after")
		return RollingCase{Before: all[:a], After: all[a:b], Later: all[b:min(len(all), b+5)]}
	},
	Run: runC03Rolling,
}

func init() { c03rolling.Register() }

func TestC03RollingRestart(t *testing.T) { c03rolling.Check(t) }
