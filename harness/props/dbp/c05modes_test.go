package dbp

import (
	"bytes"
	"fmt"
	"os"
	"path/filepath"
	"syscall"
	"testing"

	"github.com/tailscale/setec/client/setec"
	"pgregory.net/rapid"
	"verifharness/h"
)

// ---- C05: "secret-bearing files are created readable by their owner only" - the client's cache file --
//
// The database file is covered by the scan campaign (umask 0, fresh directory).  The other
// secret-bearing file the code base writes is the Store's file cache.  It may be written where
// a file already exists (an earlier release, a restored backup, an operator's touch), under any umask.

type ModeCase struct {
	Umask   int   `json:"umask"`
	PreMode int   `json:"pre_mode"` // -1: no file yet; otherwise a file with this mode is already there
	PreLen  int   `json:"pre_len"`
	DirMode int   `json:"dir_mode"` // -1: the directory does not exist yet; otherwise it exists with this mode
	Lens    []int `json:"lens"`     // successive Write calls with payloads of these lengths
}

func runC05Modes(t *testing.T, c ModeCase) (*h.Violation, h.Info) {
	var info h.Info
	root := caseDir(t)
	defer os.RemoveAll(root)
	old := syscall.Umask(0)
	defer syscall.Umask(old)
	dir := filepath.Join(root, "state", "cache")
	p := filepath.Join(dir, "secrets.cache")
	if c.DirMode >= 0 {
		os.MkdirAll(dir, 0o700)
		os.Chmod(dir, os.FileMode(c.DirMode))
	}
	if c.PreMode >= 0 {
		os.MkdirAll(dir, 0o700)
		os.WriteFile(p, bytes.Repeat([]byte("o"), c.PreLen), 0o600)
		os.Chmod(p, os.FileMode(c.PreMode))
		info.Class("file-already-there")
		if c.PreMode&0o077 != 0 {
			info.NonTrivial = true
			info.Class("file-already-there-with-loose-mode")
		}
	}
	syscall.Umask(c.Umask)
	fc, err := setec.NewFileCache(p)
	if err != nil {
		return h.V("harness", "NewFileCache: %v", err), info
	}
	for i, n := range c.Lens {
		payload := []byte(fmt.Sprintf(`{"k":{"secret":{"Value":"%s","Version":%d},"lastAccess":"0"}}`, bytes.Repeat([]byte("QUJD"), n), i+1))
		if err := fc.Write(payload); err != nil {
			return h.V("harness", "Write %d: %v", i, err), info
		}
		ents, _ := os.ReadDir(dir)
		for _, e := range ents {
			st, err := os.Stat(filepath.Join(dir, e.Name()))
			if err != nil {
				continue
			}
			if st.Mode().Perm()&0o077 != 0 {
				return h.V("owner-only-permissions", "after write %d the client cache directory holds %s with mode %o (umask %o; before the first write the path held %s)", i, e.Name(), st.Mode().Perm(), c.Umask,
					map[bool]string{true: "nothing", false: fmt.Sprintf("a %d-byte file with mode %o", c.PreLen, c.PreMode)}[c.PreMode < 0]), info
			}
		}
		got, err := os.ReadFile(p)
		if err != nil || !bytes.Equal(got, payload) {
			return h.V("harness", "cache file after write %d: %v (%d bytes, want %d)", i, err, len(got), len(payload)), info
		}
	}
	if c.DirMode < 0 && c.PreMode < 0 {
		// the directory was made by the cache itself
		for _, d := range []string{dir, filepath.Dir(dir)} {
			if st, err := os.Stat(d); err == nil && st.Mode().Perm()&0o077 != 0 {
				return h.V("owner-only-permissions", "directory %s, created for the cache file, has mode %o (umask %o)", d, st.Mode().Perm(), c.Umask), info
			}
		}
		info.NonTrivial = true
		info.Class("directory-created-by-the-cache")
	}
	return nil, info
}

var c05modes = &h.Campaign[ModeCase]{
	Prop: "C05", Sub: "cache-file-modes",
	Rule: "rapid: setec.FileCache (the client's secret-bearing file) written 1-3 times under umask 0 / 022 / 077, at a path whose directory does not exist yet or exists, and where no file or a file of mode 0666 / 0644 / 0660 / 0600 (shorter or longer than the new contents) is already there; after every write no entry of the cache directory may be readable or writable by group or others, and directories the cache created must be owner-only; non-trivial = a loosely permissioned file was already there, or the cache had to create its directory; distinct by scenario",
	Quick: 300, Thorough: 3000,
	Gen: func(rt *rapid.T) ModeCase {
		c := ModeCase{
			Umask:   rapid.SampledFrom([]int{0, 0o022, 0o077}).Draw(rt, "umask"),
			PreMode: rapid.SampledFrom([]int{-1, -1, 0o666, 0o644, 0o660, 0o600}).Draw(rt, "premode"),
			PreLen:  rapid.SampledFrom([]int{0, 10, 5000}).Draw(rt, "prelen"),
			DirMode: rapid.SampledFrom([]int{-1, 0o700}).Draw(rt, "dirmode"),
			Lens:    rapid.SliceOfN(rapid.SampledFrom([]int{0, 3, 400}), 1, 3).Draw(rt, "lens"),
		}
		return c
	},
	Run: runC05Modes,
}

func init() { c05modes.Register() }

func TestC05CacheFileModes(t *testing.T) { c05modes.Check(t) }
