package dbp

import (
	"context"
	"fmt"
	"os"
	"path/filepath"
	"runtime"
	"sync"
	"sync/atomic"
	"testing"

	"github.com/tailscale/setec/audit"
	"github.com/tailscale/setec/db"
	"pgregory.net/rapid"
	"verifharness/dbx"
	"verifharness/h"
	"verifharness/model"
)

// ---- C06 (concurrent): every record is covered by a Sync before its request proceeds --

// orderSink stamps every Write and Sync with a global sequence number. A Sync
// makes durable exactly the bytes whose Write had completed when the Sync began.
type orderSink struct {
	seq    atomic.Int64
	mu     sync.Mutex
	writes []sinkWrite
	syncs  [][2]int64 // begin, end
	yield  int
}

type sinkWrite struct {
	done int64
	host string
	data []byte
}

func (s *orderSink) Write(p []byte) (int, error) {
	for i := 0; i < s.yield+len(p)%3; i++ {
		runtime.Gosched() // a write takes a while: others may write and sync meanwhile
	}
	cp := append([]byte{}, p...)
	s.mu.Lock()
	s.writes = append(s.writes, sinkWrite{done: s.seq.Add(1), data: cp})
	s.mu.Unlock()
	return len(p), nil
}

func (s *orderSink) Sync() error {
	b := s.seq.Add(1)
	runtime.Gosched()
	e := s.seq.Add(1)
	s.mu.Lock()
	s.syncs = append(s.syncs, [2]int64{b, e})
	s.mu.Unlock()
	return nil
}

type SyncCase struct {
	Goroutines int `json:"goroutines"`
	Calls      int `json:"calls"`
	Yield      int `json:"yield"`
}

func runC06Sync(t *testing.T, c SyncCase) (*h.Violation, h.Info) {
	var info h.Info
	dir := caseDir(t)
	defer os.RemoveAll(dir)
	sink := &orderSink{yield: c.Yield}
	d, err := db.Open(filepath.Join(dir, "db"), dbx.DummyKey(), audit.New(sink))
	if err != nil {
		return h.V("harness", "open: %v", err), info
	}
	su := dbx.Super()
	if _, err := d.Put(su.DB(), "a", []byte("value")); err != nil {
		return h.V("harness", "put: %v", err), info
	}
	type call struct {
		host     string
		k        int
		returned int64
		ok       bool
	}
	var mu sync.Mutex
	var calls []call
	var wg sync.WaitGroup
	start := make(chan struct{})
	for g := 0; g < c.Goroutines; g++ {
		caller := dbx.Restricted(1, model.SuperRules())
		caller.Host = fmt.Sprintf("g%d.example.ts.net", g)
		wg.Add(1)
		go func() {
			defer wg.Done()
			<-start
			for k := 0; k < c.Calls; k++ {
				var err error
				if k%3 == 2 {
					_, err = d.Put(caller.DB(), fmt.Sprintf("p%d", g), []byte(fmt.Sprint(k)))
				} else {
					_, err = d.Get(caller.DB(), "a")
				}
				ret := sink.seq.Add(1)
				mu.Lock()
				calls = append(calls, call{caller.Host, k, ret, err == nil})
				mu.Unlock()
			}
		}()
	}
	close(start)
	wg.Wait()
	_ = context.Background
	// attribute records to callers in order
	perHost := map[string][]sinkWrite{}
	for _, w := range sink.writes {
		rec, perr := parseRecord(w.data)
		if perr != nil {
			return h.V("one-complete-json-line", "%v", perr), info
		}
		perHost[rec.Principal.Hostname] = append(perHost[rec.Principal.Hostname], w)
	}
	overl := 0
	for _, cl := range calls {
		if !cl.ok {
			continue
		}
		ws := perHost[cl.host]
		if cl.k >= len(ws) {
			return h.V("every-disclosure-mutation-denial-recorded", "call %d of %s succeeded without a record", cl.k, cl.host), info
		}
		w := ws[cl.k]
		covered := false
		for _, s := range sink.syncs {
			if s[0] > w.done && s[1] < cl.returned {
				covered = true
				break
			}
		}
		if !covered {
			return h.V("record-synced", "call %d of %s returned successfully (at %d), but no Sync began after its record had been written (at %d) and ended before it returned: the record was not synced first; syncs: %v", cl.k, cl.host, cl.returned, w.done, near(sink.syncs, w.done)), info
		}
		for _, s := range sink.syncs {
			if s[0] < w.done && s[1] > w.done {
				overl++
			}
		}
	}
	info.NonTrivial = overl > 0
	if info.NonTrivial {
		info.Class("a-write-overlapped-anothers-sync")
	}
	return nil, info
}

func near(syncs [][2]int64, at int64) [][2]int64 {
	var out [][2]int64
	for _, s := range syncs {
		if s[1] > at-6 && s[0] < at+8 {
			out = append(out, s)
		}
	}
	return out
}

var c06sync = &h.Campaign[SyncCase]{
	Prop: "C06", Sub: "concurrent-sync",
	Rule: "rapid: 2-6 goroutines x 5-30 successful gets/puts on one db.DB whose audit sink stamps every Write completion and every Sync begin/end with a global sequence number and yields inside Write; for every successful call some Sync must have begun after that call's record was completely written and ended before the call returned; under the race detector; non-trivial = some record's write overlapped another caller's Sync; distinct by (scenario, run) since schedules are sampled",
	Quick: 300, Thorough: 60000,
	Gen: func(rt *rapid.T) SyncCase {
		return SyncCase{Goroutines: rapid.IntRange(2, 6).Draw(rt, "g"), Calls: rapid.IntRange(5, 30).Draw(rt, "calls"), Yield: rapid.IntRange(0, 4).Draw(rt, "yield")}
	},
	Run: runC06Sync,
	Key: func(c SyncCase) any { return fmt.Sprintf("%v/%d", c, syncNonce.Add(1)) },
}

var syncNonce atomic.Int64

func init() { c06sync.Register() }

func TestC06RaceConcurrentSync(t *testing.T) { c06sync.Check(t) }
