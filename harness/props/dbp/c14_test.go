package dbp

import (
	"bytes"
	"fmt"
	"html"
	"net/http/httptest"
	"os"
	"path/filepath"
	"regexp"
	"runtime"
	"sort"
	"strconv"
	"strings"
	"sync"
	"sync/atomic"
	"testing"
	"time"

	"github.com/anishathalye/porcupine"
	"github.com/tailscale/setec/audit"
	"github.com/tailscale/setec/db"
	"pgregory.net/rapid"
	"verifharness/dbx"
	"verifharness/h"
	"verifharness/model"
)

// ---- C14: linearizability against the sequential specification --------------

type ConcOp struct {
	Kind  string `json:"kind"`
	Name  string `json:"name"`
	Val   string `json:"val"`
	Ver   uint32 `json:"ver"`
	Yield int    `json:"yield"` // Gosched calls before the operation
	// Restricted: the call is made by the restricted caller (LinCase.Rules) instead of the superuser.
	// Whether the ACL refuses it depends on (rules, action, name) only, never on the state, so the
	// runner works it out beforehand and stores it in Denied for the sequential model.
	Restricted bool `json:"restricted,omitempty"`
	// Second: ... by the SECOND restricted caller (another node, LinCase.Rules2) instead of the first
	Second bool `json:"second,omitempty"`
	Denied bool `json:"-"`
	// DiskDown: the call is made while the state directory is unavailable (set by the runner): a call
	// that would have to write fails and changes nothing - and nobody else ever sees it half done
	DiskDown bool `json:"-"`
}

type LinCase struct {
	Progs       [][]ConcOp   `json:"progs"`
	HTTP        bool         `json:"http"`
	Setup       int          `json:"setup"`                   // the first Setup programs run to completion, one after the other, before the others start
	AuditYield  int          `json:"audit_yield"`             // the audit device yields the processor this many times per write/sync (a slow device)
	Rules       []model.Rule `json:"rules,omitempty"`         // grant of the restricted caller
	ReadDelayUs int          `json:"read_delay_us,omitempty"` // the audit device takes this much longer over records of read accesses
	DiskDown    bool         `json:"disk_down,omitempty"`     // the state directory is unavailable while the concurrent programs run (after the set-up programs)
	Rules2      []model.Rule `json:"rules2,omitempty"`        // grant of a second restricted caller (nil = there is none)
}

type linOut struct {
	Class model.Class
	Ver   uint32
	Val   string
	Dump  string
}

// renderInfos renders a listing canonically (entries by name, versions ascending): the order in
// which a listing comes back is not fixed by any property.
func renderInfos(l []model.InfoM) string {
	l = append([]model.InfoM{}, l...)
	sort.SliceStable(l, func(i, j int) bool { return l[i].Name < l[j].Name })
	var sb strings.Builder
	for _, in := range l {
		vs := append([]uint32{}, in.Versions...)
		sort.Slice(vs, func(i, j int) bool { return vs[i] < vs[j] })
		fmt.Fprintf(&sb, "%q[a%d %v]", in.Name, in.Active, vs)
	}
	return sb.String()
}

func modelList(m model.KV) string {
	var l []model.InfoM
	for _, n := range m.Names() {
		in, _ := m.Info(n)
		l = append(l, in)
	}
	return renderInfos(l)
}

var linModel = porcupine.Model{
	Init: func() interface{} { return model.KV{} },
	Step: func(state, input, output interface{}) (bool, interface{}) {
		m := state.(model.KV).Clone()
		o := input.(ConcOp)
		r := output.(linOut)
		if o.Denied {
			// refused by the ACL: access-denied, whatever the state, and no effect
			return r.Class == model.Denied, m
		}
		if o.DiskDown {
			switch o.Kind {
			case "put", "activate", "delver", "del":
				trial := m.Clone()
				var c model.Class
				switch o.Kind {
				case "put":
					_, c = trial.Put(o.Name, o.Val)
				case "activate":
					c = trial.Activate(o.Name, o.Ver)
				case "delver":
					c = trial.DeleteVersion(o.Name, o.Ver)
				default:
					c = trial.Delete(o.Name)
				}
				if c == model.OK && trial.Render(true) != m.Render(true) {
					// it would have to write: it fails, and the state stays what it was
					return r.Class != model.OK && r.Class != model.Denied && r.Class != model.NotFound, m
				}
				if c == model.OK && r.Class == model.Other {
					// it changes nothing (the version is active already, the bytes are the latest ones,
					// the secret is not there): an implementation may persist such a call all the same,
					// and then it fails like any other write - without effect
					return true, m
				}
			}
		}
		switch o.Kind {
		case "put":
			v, c := m.Put(o.Name, o.Val)
			return c == r.Class && (c != model.OK || v == r.Ver), m
		case "activate":
			return m.Activate(o.Name, o.Ver) == r.Class, m
		case "delver":
			return m.DeleteVersion(o.Name, o.Ver) == r.Class, m
		case "del":
			return m.Delete(o.Name) == r.Class, m
		case "get":
			v, b, c := m.Get(o.Name)
			if c != model.OK {
				return r.Class == c, m
			}
			return r.Class == model.OK && r.Ver == v && r.Val == b, m
		case "cond":
			v, b, c := m.Get(o.Name)
			if c != model.OK {
				return r.Class == c, m
			}
			if o.Ver != 0 && o.Ver == v {
				return r.Class == model.NotChanged, m
			}
			return r.Class == model.OK && r.Ver == v && r.Val == b, m
		case "getver":
			b, c := m.GetVersion(o.Name, o.Ver)
			if c != model.OK {
				return r.Class == c, m
			}
			return r.Class == model.OK && r.Ver == o.Ver && r.Val == b, m
		case "info":
			in, c := m.Info(o.Name)
			if c != model.OK {
				return r.Class == c, m
			}
			return r.Class == model.OK && r.Dump == renderInfos([]model.InfoM{in}), m
		case "list", "page":
			return r.Class == model.OK && r.Dump == modelList(m), m
		case "final":
			return r.Dump == m.Render(false), m
		}
		return false, m
	},
	Equal:             func(a, b interface{}) bool { return a.(model.KV).String() == b.(model.KV).String() },
	DescribeOperation: func(in, out interface{}) string { return fmt.Sprintf("%+v -> %+v", in, out) },
}

// linSink is the audit device of the concurrent runs: it really reads the bytes it is handed
// (so the race detector sees a writer that lets go of a buffer too early), keeps a copy of every
// record, and is a little slow - which widens every window in which two requests overlap.
type linSink struct {
	mu      sync.Mutex
	records [][]byte
	yields  int
	// records of read accesses take this much longer (a device on which one kind of record is slow
	// lets several complete calls of other clients fit into one call's audit step)
	readDelay time.Duration
}

func (s *linSink) Write(p []byte) (int, error) {
	cp := append([]byte{}, p...)
	if s.readDelay > 0 && bytes.Contains(cp, []byte(`"action":"get"`)) {
		time.Sleep(s.readDelay)
	}
	for i := 0; i < s.yields; i++ {
		runtime.Gosched()
	}
	s.mu.Lock()
	s.records = append(s.records, cp)
	s.mu.Unlock()
	return len(p), nil
}

func (s *linSink) Sync() error {
	for i := 0; i < s.yields; i++ {
		runtime.Gosched()
	}
	return nil
}

var pageRow = regexp.MustCompile(`(?s)<tr>\s*<td>(.*?)</td>\s*<td>(.*?)</td>\s*</tr>`)
var pageVer = regexp.MustCompile(`(<b>)?(\d+)(</b>)?`)

// doConc performs one call of a concurrent program. The kind "page" is the listing as a person sees
// it: the HTML page the server shows at "/" (through the handlers; at the database API it is a
// list), parsed back into names, version lists and the active (bold) version.
func doConc(tgt dbx.Target, caller dbx.CallerM, op dbx.Op, ver uint32) dbx.Result {
	if op.Kind != "page" {
		return tgt.Do(caller, op, ver)
	}
	ht, ok := tgt.(*dbx.HTTPTarget)
	if !ok {
		op.Kind = "list"
		return tgt.Do(caller, op, ver)
	}
	req := httptest.NewRequest("GET", "/", nil)
	req.RemoteAddr = ht.AddrOf(caller)
	w := httptest.NewRecorder()
	ht.Mux.ServeHTTP(w, req)
	if w.Code != 200 {
		return dbx.Result{Class: model.Other, Err: fmt.Sprintf("GET / answered %d %q", w.Code, w.Body.String()), IsList: true}
	}
	if !pageParserFits() {
		// the page no longer looks the way this parser expects (its layout is nobody's property): the
		// answer counts as the listing the JSON API gives at this moment
		op.Kind = "list"
		return tgt.Do(caller, op, ver)
	}
	return parsePage(w.Body.String())
}

func parsePage(body string) dbx.Result {
	res := dbx.Result{Class: model.OK, IsList: true}
	for _, row := range pageRow.FindAllStringSubmatch(body, -1) {
		in := model.InfoM{Name: html.UnescapeString(row[1])}
		for _, v := range pageVer.FindAllStringSubmatch(row[2], -1) {
			n, _ := strconv.Atoi(v[2])
			in.Versions = append(in.Versions, uint32(n))
			if v[1] != "" {
				in.Active = uint32(n)
			}
		}
		res.List = append(res.List, in)
	}
	return res
}

var (
	pageOnce sync.Once
	pageFits bool
)

// pageParserFits checks once per process, on a quiet database with known contents, that parsePage
// reads the server's HTML page back into exactly what the JSON listing says.
func pageParserFits() bool {
	pageOnce.Do(func() {
		dir, err := os.MkdirTemp(os.Getenv("VERIF_FAST_SCRATCH"), "c14page-")
		if err != nil {
			return
		}
		defer os.RemoveAll(dir)
		d, err := dbx.OpenDiscard(filepath.Join(dir, "db"), dbx.DummyKey())
		if err != nil {
			return
		}
		su := dbx.Super()
		for _, p := range [][2]string{{"a", "1"}, {"a", "2"}, {"a", "3"}, {"b & <c>", "x"}} {
			d.Put(su.DB(), p[0], []byte(p[1]))
		}
		d.Activate(su.DB(), "a", 2)
		ht, err := dbx.NewHTTP(d, []dbx.CallerM{su})
		if err != nil {
			return
		}
		req := httptest.NewRequest("GET", "/", nil)
		req.RemoteAddr = ht.AddrOf(su)
		w := httptest.NewRecorder()
		ht.Mux.ServeHTTP(w, req)
		want := ht.Do(su, dbx.Op{Kind: "list"}, 0)
		pageFits = w.Code == 200 && len(want.List) == 2 && renderInfos(parsePage(w.Body.String()).List) == renderInfos(want.List)
	})
	return pageFits
}

func runC14(t *testing.T, c LinCase) (*h.Violation, h.Info) {
	var info h.Info
	dir := caseDir(t)
	defer os.RemoveAll(dir)
	sink := &linSink{yields: c.AuditYield, readDelay: time.Duration(c.ReadDelayUs) * time.Microsecond}
	d, err := db.Open(filepath.Join(dir, "db"), dbx.DummyKey(), audit.New(sink))
	if err != nil {
		return h.V("harness", "open: %v", err), info
	}
	su := dbx.Super()
	low, low2 := dbx.Restricted(1, c.Rules), dbx.Restricted(3, c.Rules2)
	who := func(o *ConcOp) dbx.CallerM {
		if !o.Restricted || o.Kind == "list" || o.Kind == "page" || o.Kind == "final" {
			o.Restricted = false
			return su
		}
		if o.Second && c.Rules2 != nil {
			o.Denied = !model.Allow(c.Rules2, dbx.ActionOf(o.Kind), o.Name)
			if o.Denied {
				info.Class("call-refused-by-the-acl")
			}
			info.Class("two-restricted-callers-with-different-grants")
			return low2
		}
		o.Denied = !model.Allow(c.Rules, dbx.ActionOf(o.Kind), o.Name)
		if o.Denied {
			info.Class("call-refused-by-the-acl")
		}
		return low
	}
	var mk func() dbx.Target = func() dbx.Target { return dbx.DBTarget{D: d} }
	if c.HTTP {
		info.Class("path-http")
		// ONE server (one set of handlers) serves all clients at once, as in production;
		// every client gets its own recorder of replies
		shared, err := dbx.NewHTTP(d, []dbx.CallerM{su, low, low2})
		if err != nil {
			return h.V("harness", "server: %v", err), info
		}
		mk = func() dbx.Target { return &dbx.HTTPTarget{Mux: shared.Mux, AddrOf: shared.AddrOf} }
	} else {
		info.Class("path-db")
	}
	var clock atomic.Int64
	var mu sync.Mutex
	diskDown := false
	var hist []porcupine.Operation
	var wg sync.WaitGroup
	start := make(chan struct{})
	runProg := func(ci int, prog []ConcOp, tgt dbx.Target) {
		for _, o := range prog {
			op := dbx.Op{Kind: o.Kind, Name: o.Name, Val: []byte(o.Val)}
			caller := who(&o)
			call := clock.Add(1)
			r := doConc(tgt, caller, op, o.Ver)
			ret := clock.Add(1)
			hist = append(hist, porcupine.Operation{ClientId: ci, Input: o, Call: call, Output: linOut{Class: r.Class, Ver: r.Ver, Val: string(r.Val)}, Return: ret})
		}
	}
	for ci := 0; ci < c.Setup && ci < len(c.Progs); ci++ {
		runProg(ci, c.Progs[ci], mk())
	}
	for ci, prog := range c.Progs {
		if ci < c.Setup {
			continue
		}
		wg.Add(1)
		tgt := mk()
		go func() {
			defer wg.Done()
			<-start
			for _, o := range prog {
				for y := 0; y < o.Yield; y++ {
					runtime.Gosched()
				}
				op := dbx.Op{Kind: o.Kind, Name: o.Name, Val: []byte(o.Val)}
				o.DiskDown = diskDown
				mu.Lock()
				caller := who(&o)
				mu.Unlock()
				call := clock.Add(1)
				r := doConc(tgt, caller, op, o.Ver)
				ret := clock.Add(1)
				out := linOut{Class: r.Class, Ver: r.Ver, Val: string(r.Val)}
				if r.Info != nil {
					out.Dump = renderInfos([]model.InfoM{*r.Info})
				}
				if r.IsList {
					out.Dump = renderInfos(r.List)
				}
				mu.Lock()
				hist = append(hist, porcupine.Operation{ClientId: ci, Input: o, Call: call, Output: out, Return: ret})
				mu.Unlock()
			}
		}()
	}
	if c.DiskDown && c.Setup > 0 {
		held, err := dbx.Outage(dir, func() {
			diskDown = true
			close(start)
			wg.Wait()
		})
		if err != nil {
			return h.V("harness", "%v", err), info
		}
		if !held {
			return nil, info // the code put the directory back itself: no outage to speak of, nothing to judge
		}
		info.Class("concurrent-calls-while-the-disk-is-unavailable")
	} else {
		close(start)
		wg.Wait()
	}
	dump, err := dbx.Dump(d)
	if err != nil {
		return h.V("final-state-consistent", "final dump failed: %v; history %+v", err, hist), info
	}
	call := clock.Add(1)
	hist = append(hist, porcupine.Operation{ClientId: len(c.Progs), Input: ConcOp{Kind: "final"}, Call: call, Output: linOut{Dump: dump.Render(false)}, Return: clock.Add(1)})
	overlap := false
	for i := range hist {
		for j := range hist {
			a, b := hist[i], hist[j]
			if i != j && a.ClientId != b.ClientId && a.Call < b.Return && b.Call < a.Return {
				ia, ib := a.Input.(ConcOp), b.Input.(ConcOp)
				mut := func(k string) bool { return k == "put" || k == "activate" || k == "delver" || k == "del" }
				if (ia.Name == ib.Name || ia.Kind == "list" || ib.Kind == "list") && (mut(ia.Kind) || mut(ib.Kind)) {
					overlap = true
				}
			}
		}
	}
	if overlap {
		info.Class("overlapping-calls-on-one-name-with-mutation")
		info.NonTrivial = true
	}
	// the audit writer under concurrent use: every record it handed to the device is one complete line,
	// and no record was handed over twice
	sink.mu.Lock()
	ids := map[uint64]bool{}
	for _, rec := range sink.records {
		r, perr := parseRecord(rec)
		if perr != nil {
			sink.mu.Unlock()
			return h.V("audit-writer-race-free", "concurrent calls made the audit writer hand a torn record to the device: %v", perr), info
		}
		if ids[*r.ID] {
			sink.mu.Unlock()
			return h.V("audit-writer-race-free", "concurrent calls made the audit writer hand the same record (id %d) to the device twice: %q", *r.ID, rec), info
		}
		ids[*r.ID] = true
	}
	sink.mu.Unlock()
	res := porcupine.CheckOperationsTimeout(linModel, hist, 20*time.Second)
	switch res {
	case porcupine.Illegal:
		var sb strings.Builder
		for _, o := range hist {
			fmt.Fprintf(&sb, "\n  c%d [%d,%d] %+v -> %+v", o.ClientId, o.Call, o.Return, o.Input, o.Output)
		}
		return h.V("linearizable", "no sequential order of this history agrees with the model:%s", sb.String()), info
	case porcupine.Unknown:
		info.Class("search-timeout")
	}
	return nil, info
}

func genLinCase(rt *rapid.T) LinCase {
	c := LinCase{HTTP: rapid.IntRange(0, 2).Draw(rt, "http") == 0, AuditYield: rapid.SampledFrom([]int{0, 1, 3}).Draw(rt, "audityield"), ReadDelayUs: rapid.SampledFrom([]int{0, 0, 100, 400}).Draw(rt, "readdelay")}
	nc := rapid.IntRange(2, 4).Draw(rt, "clients")
	names := []string{"a", "a", "a", "b"}
	withLow := rapid.IntRange(0, 2).Draw(rt, "with-restricted") == 0
	if withLow {
		c.Rules = genLinRules(rt)
		if rapid.Bool().Draw(rt, "with-second") {
			c.Rules2 = genLinRules(rt)
		}
	}
	for i := 0; i < nc; i++ {
		c.Progs = append(c.Progs, rapid.SliceOfN(rapid.Custom(func(rt *rapid.T) ConcOp {
			return ConcOp{
				Kind:       rapid.SampledFrom([]string{"put", "put", "put", "activate", "delver", "del", "get", "getver", "cond", "info", "list", "page"}).Draw(rt, "kind"),
				Name:       rapid.SampledFrom(names).Draw(rt, "name"),
				Val:        rapid.SampledFrom([]string{"", "x", "y"}).Draw(rt, "val"),
				Ver:        uint32(rapid.IntRange(1, 4).Draw(rt, "ver")),
				Yield:      rapid.IntRange(0, 3).Draw(rt, "yield"),
				Restricted: withLow && rapid.IntRange(0, 2).Draw(rt, "restricted") > 0,
				Second:     i%2 == 1,
			}
		}), 2, 5).Draw(rt, "prog"))
	}
	if rapid.IntRange(0, 3).Draw(rt, "rotation") == 0 {
		// a rotation (activate the new version, delete the old one) by one client while the others read:
		// two versions of "a" are put first, one after the other
		c.Progs = append([][]ConcOp{{{Kind: "put", Name: "a", Val: "x"}, {Kind: "put", Name: "a", Val: "y"}}}, c.Progs...)
		c.Setup = 1
		c.Progs[1] = append([]ConcOp{{Kind: "activate", Name: "a", Ver: 2}, {Kind: "delver", Name: "a", Ver: 1}}, c.Progs[1]...)
		c.Progs[2] = append([]ConcOp{{Kind: rapid.SampledFrom([]string{"get", "get", "cond", "info"}).Draw(rt, "reader"), Name: "a", Ver: 2}}, c.Progs[2]...)
		if c.ReadDelayUs == 0 {
			c.ReadDelayUs = 200
		}
	}
	if c.Setup == 0 && rapid.IntRange(0, 4).Draw(rt, "diskdown") == 0 {
		// the disk gives out under a running server that holds a few secrets: writes fail, reads go on
		c.Progs = append([][]ConcOp{{{Kind: "put", Name: "a", Val: "x"}, {Kind: "put", Name: "a", Val: "y"}, {Kind: "put", Name: "b", Val: "x"}}}, c.Progs...)
		c.Setup, c.DiskDown = 1, true
	}
	return c
}

// genLinRules draws the grant of the restricted caller of the concurrent runs: one or two rules
// over the names a and b, so that a good share of its calls is refused and a good share allowed.
func genLinRules(rt *rapid.T) []model.Rule {
	return rapid.SliceOfN(rapid.Custom(func(rt *rapid.T) model.Rule {
		return model.Rule{
			Action: rapid.SliceOfNDistinct(rapid.SampledFrom(model.AllActions), 1, 4, func(s string) string { return s }).Draw(rt, "actions"),
			Secret: rapid.SampledFrom([][]string{{"a"}, {"b"}, {"*"}, {"a", "b"}, {"x*"}}).Draw(rt, "secrets"),
		}
	}), 1, 2).Draw(rt, "rules")
}

var c14 = &h.Campaign[LinCase]{
	Prop: "C14", Sub: "linearizability",
	Rule:  "rapid: small concurrent programs, 2-4 clients x 2-5 calls (put/activate/delete-version/delete/get/get-version/info/list) on names {a (weighted), b} with a 3-value pool and generated yields, started from a barrier on a real database file, at db.DB or through concurrent mux.ServeHTTP; the audit device really reads and keeps every record and yields the processor 0-3 times per write/sync (every record must be one complete line, no id twice); HTTP clients share ONE server instance; a final sequential full dump is appended; each recorded history is decided by porcupine's exhaustive linearizability search against the map model; runs under the race detector; non-trivial = the recorded intervals show >= 2 overlapping calls of different clients on the same name (or a list), at least one of them a mutation; distinct by program (schedules are sampled, so the same program may be explored under several interleavings)",
	Quick: 1500, Thorough: 200000,
	Gen: genLinCase,
	Run: runC14,
}

// C09 (concurrent part): "not-modified iff the active version is V at that moment" under
// concurrent activations - the same runner and decision procedure, a generator biased to
// conditional gets and activations of one secret that starts with several versions.
var c09conc = &h.Campaign[LinCase]{
	Prop: "C09", Sub: "concurrent",
	Rule:  "rapid: 2-4 clients x 2-6 calls, mostly conditional gets (V in 1..4) and activations (also delete-versions, puts, get) on one secret that first receives three versions, all clients talking to one server instance (or db.DB); each recorded history is decided by porcupine against the map model (a conditional get may answer not-modified only if some linearization point has active == V, and may never return version V itself); under the race detector; non-trivial = overlapping calls on the name with at least one mutation; distinct by program",
	Quick: 600, Thorough: 80000,
	Gen: func(rt *rapid.T) LinCase {
		c := LinCase{HTTP: rapid.IntRange(0, 1).Draw(rt, "http") == 0, AuditYield: rapid.SampledFrom([]int{0, 1, 3}).Draw(rt, "audityield")}
		c.Progs = append(c.Progs, []ConcOp{{Kind: "put", Name: "a", Val: "x"}, {Kind: "put", Name: "a", Val: "y"}, {Kind: "put", Name: "a", Val: "z"}})
		// in half of the cases some of the polling clients are other nodes: one that may get the secret
		// and one that may not, asking the same question at the same time over a slow audit device
		withNodes := rapid.Bool().Draw(rt, "with-nodes")
		if withNodes {
			c.Rules = []model.Rule{{Action: []string{"get"}, Secret: []string{rapid.SampledFrom([]string{"a", "*"}).Draw(rt, "granted")}}}
			c.Rules2 = []model.Rule{{Action: []string{rapid.SampledFrom([]string{"info", "put", "get"}).Draw(rt, "other-action")}, Secret: []string{rapid.SampledFrom([]string{"b", "a*b", "a"}).Draw(rt, "other-pattern")}}}
			c.ReadDelayUs = rapid.SampledFrom([]int{100, 400, 1500}).Draw(rt, "readdelay")
		}
		nc := rapid.IntRange(2, 4).Draw(rt, "clients")
		for i := 0; i < nc; i++ {
			c.Progs = append(c.Progs, rapid.SliceOfN(rapid.Custom(func(rt *rapid.T) ConcOp {
				return ConcOp{
					Kind:       rapid.SampledFrom([]string{"cond", "cond", "cond", "activate", "activate", "delver", "put", "get"}).Draw(rt, "kind"),
					Name:       "a",
					Val:        rapid.SampledFrom([]string{"x", "w"}).Draw(rt, "val"),
					Ver:        uint32(rapid.IntRange(1, 4).Draw(rt, "ver")),
					Yield:      rapid.IntRange(0, 3).Draw(rt, "yield"),
					Restricted: withNodes && i > 0,
					Second:     i%2 == 0,
				}
			}), 2, 6).Draw(rt, "prog"))
		}
		c.Setup = 1
		return c
	},
	Run: runC14,
}

// C01 (concurrent part): "refused and stored state unchanged" while another caller's authorized
// request is in flight - the same runner and decision procedure; one client is the superuser, the
// others are restricted callers, every audit write is slow so that a refused and an allowed call
// overlap inside the access check.
var c01conc = &h.Campaign[LinCase]{
	Prop: "C01", Sub: "concurrent",
	Rule:  "rapid: 2-4 clients x 2-6 calls on names {a, b} at db.DB or through one shared server; client 0 is the superuser, the others call as ONE restricted identity with a generated grant (1-2 rules), so allowed and refused calls of different callers overlap while the (slow, reading) audit device is writing; each recorded history is decided by porcupine against the map model in which a call the ACL model refuses must answer access-denied and change nothing; under the race detector; non-trivial = overlapping calls on one name with a mutation AND at least one refused call; distinct by program",
	Quick: 500, Thorough: 60000,
	Gen: func(rt *rapid.T) LinCase {
		c := LinCase{HTTP: rapid.IntRange(0, 2).Draw(rt, "http") == 0, AuditYield: rapid.SampledFrom([]int{1, 3, 8}).Draw(rt, "audityield"), Rules: genLinRules(rt)}
		if rapid.Bool().Draw(rt, "with-second") {
			c.Rules2 = genLinRules(rt)
		}
		c.Progs = append(c.Progs, []ConcOp{{Kind: "put", Name: "a", Val: "x"}, {Kind: "put", Name: "b", Val: "y"}})
		nc := rapid.IntRange(2, 4).Draw(rt, "clients")
		for i := 0; i < nc; i++ {
			c.Progs = append(c.Progs, rapid.SliceOfN(rapid.Custom(func(rt *rapid.T) ConcOp {
				return ConcOp{
					Kind:       rapid.SampledFrom([]string{"put", "put", "activate", "delver", "del", "get", "getver", "cond", "info"}).Draw(rt, "kind"),
					Name:       rapid.SampledFrom([]string{"a", "a", "b"}).Draw(rt, "name"),
					Val:        rapid.SampledFrom([]string{"x", "w", "v"}).Draw(rt, "val"),
					Ver:        uint32(rapid.IntRange(1, 3).Draw(rt, "ver")),
					Yield:      rapid.IntRange(0, 3).Draw(rt, "yield"),
					Restricted: i > 0,
					Second:     i%2 == 0,
				}
			}), 2, 6).Draw(rt, "prog"))
		}
		c.Setup = 1
		return c
	},
	Run: func(t *testing.T, c LinCase) (*h.Violation, h.Info) {
		v, info := runC14(t, c)
		refused := false
		for _, cl := range info.Classes {
			if cl == "call-refused-by-the-acl" {
				refused = true
			}
		}
		info.NonTrivial = info.NonTrivial && refused
		if v != nil && v.Clause == "linearizable" {
			v.Clause, v.Sig = "refused-without-grant-under-concurrency", "refused-without-grant-under-concurrency"
		}
		return v, info
	},
}

func init() { c14.Register(); c09conc.Register(); c01conc.Register() }

func TestC01RaceConcurrent(t *testing.T) { c01conc.Check(t) }

func TestC09RaceConcurrent(t *testing.T) { c09conc.Check(t) }

func TestC14RaceLinearizable(t *testing.T) { c14.Check(t) }

// The same programs with TWO restricted identities whose grants differ, judged as what they are for
// C14: concurrent requests of different callers - each decided under its own grant - still fit one
// sequential order. (Anything the access check shares between requests - a memo of the last pattern,
// a pooled buffer - shows here.)
var c14restricted = &h.Campaign[LinCase]{
	Prop: "C14", Sub: "two-restricted-callers",
	Rule:  "rapid: the programs of C01's concurrent sub-campaign (2-4 clients x 2-6 calls on {a, b}, client 0 the superuser) with the other clients calling as TWO restricted identities that hold different generated grants, slow audit writes so that their access checks overlap; each history decided by porcupine against the map model under each caller's own grant; under the race detector; non-trivial = overlapping calls on one name with a mutation; distinct by program",
	Quick: 600, Thorough: 60000,
	Gen: func(rt *rapid.T) LinCase {
		c := c01conc.Gen(rt)
		if c.Rules2 == nil {
			c.Rules2 = genLinRules(rt)
		}
		return c
	},
	Run: runC14,
}

func TestC14RaceTwoRestrictedCallers(t *testing.T) { c14restricted.Check(t) }

func init() { c14restricted.Register() }
