package faultp

import (
	"bytes"
	"encoding/base64"
	"encoding/hex"
	"encoding/json"
	"fmt"
	"os"
	"path/filepath"
	"strings"
	"syscall"
	"testing"

	"verifharness/dbx"
	"verifharness/h"
)

// ---- C05 (temporaries): files left behind by a crash mid-save expose nothing ----------

func TestC05Temporaries(t *testing.T) {
	h.FirstShardOnly(t)
	if _, err := os.Stat(childBin); err != nil {
		t.Fatalf("faultchild not built: %v", err)
	}
	rec := h.NewRec("C05", "temporaries", "a save of a database holding high-entropy marker names/values is killed before every file-system call of its traced window (umask 0); every file left in the directory (live file and temporaries) is scanned for the markers in raw / hex / base64 / JSON-escaped form and must have no group/other permission bits; distinct by kill position; non-trivial = a temporary file was actually left behind")
	defer rec.Flush()
	old := syscall.Umask(0)
	defer syscall.Umask(old)
	root := h.Scratch(t)
	name := "prod/MARKERNAME-7f3a9c1e55d2b648"
	values := [][]byte{[]byte("MARKERVALUE-\x00\xff\"-91c2e7aa04b3f6d8"), []byte("second-marker-value-5d6e7f8091a2b3c4")}
	pre := filepath.Join(root, "pre")
	os.MkdirAll(pre, 0o700)
	d, err := dbx.OpenDiscard(filepath.Join(pre, "db"), dbx.DummyKey())
	if err != nil {
		t.Fatal(err)
	}
	su := dbx.Super()
	d.Put(su.DB(), name, values[0])
	preBytes, _ := os.ReadFile(filepath.Join(pre, "db"))
	op := dbx.Op{Kind: "put", Name: name, Val: values[1]}
	opJSON, _ := json.Marshal(op)
	retryJSON, _ := json.Marshal(retryOp)
	seq := 0
	run := func(f *Fault) (runOut, string) {
		seq++
		dir := filepath.Join(root, fmt.Sprintf("r%d", seq))
		os.MkdirAll(dir, 0o700)
		path := filepath.Join(dir, "db")
		os.WriteFile(path, preBytes, 0o600)
		var exprs []string
		if f != nil {
			exprs, _ = f.inject()
		}
		return runChild(dir, exprs, "db", path, "-1", string(opJSON), string(retryJSON)), dir
	}
	dry, dir := run(nil)
	if dry.Err != nil {
		t.Fatalf("dry run: %v", dry.Err)
	}
	os.RemoveAll(dir)
	win, resW, ok := window(dry.Main)
	if !ok {
		t.Fatalf("no window")
	}
	forms := func(v []byte) [][]byte {
		esc, _ := json.Marshal(string(v))
		return [][]byte{v, []byte(hex.EncodeToString(v)), []byte(base64.StdEncoding.EncodeToString(v)), []byte(base64.URLEncoding.EncodeToString(v)), esc[1 : len(esc)-1]}
	}
	markers := append([][]byte{[]byte(name)}, values...)
	for _, f := range enumerate(win, resW) {
		if f.Kind != "kill" {
			continue
		}
		o, dir := run(&f)
		if o.Err != nil {
			t.Fatalf("%s: %v", f, o.Err)
		}
		ents, _ := os.ReadDir(dir)
		left := 0
		var v *h.Violation
		for _, e := range ents {
			if strings.HasPrefix(e.Name(), "trace") {
				continue
			}
			p := filepath.Join(dir, e.Name())
			data, _ := os.ReadFile(p)
			if e.Name() != "db" {
				left++
			}
			for _, m := range markers {
				for _, form := range forms(m) {
					if bytes.Contains(data, form) {
						v = h.V("temporaries-expose-nothing", "after SIGKILL at window position %d (%s) the file %s contains marker %q", f.Index, f.Call, e.Name(), m)
					}
				}
			}
			if st, err := os.Stat(p); err == nil && st.Mode().Perm()&0o077 != 0 {
				v = h.V("owner-only-permissions", "after SIGKILL at window position %d (%s) the file %s has mode %o (umask 0)", f.Index, f.Call, e.Name(), st.Mode().Perm())
			}
		}
		os.RemoveAll(dir)
		rec.Case(fmt.Sprintf("%s/%d", f.Call, f.Index), h.Info{NonTrivial: left > 0, Classes: []string{fmt.Sprintf("temporaries-left-%d", left)}}, map[string]any{"kill_before": f.Call, "window_position": f.Index, "temporaries_left": left})
		if v != nil {
			p := h.WriteFailure("C05", "temporaries", v, f)
			h.Report("C05", "temporaries", v, p)
			t.Fatalf("%s: %s", v.Clause, v.Detail)
		}
	}
	rec.Exhaustive()
	rec.Completed()
}
