package faultp

import (
	"bytes"
	"crypto/sha256"
	"encoding/json"
	"fmt"
	"os"
	"path/filepath"
	"strings"
	"sync"
	"testing"

	"pgregory.net/rapid"
	"verifharness/dbx"
	"verifharness/h"
	"verifharness/model"
)

// ---- C04: all-or-nothing under crashes and I/O failures ----------------------------

type FaultCase struct {
	Pre  []dbx.Op `json:"pre"`  // superuser history that builds the pre-state (run untraced)
	Kind string   `json:"kind"` // create-db | put-new | put-version | activate | delete-version | delete
	Arg  int      `json:"arg"`  // picks among candidates
	Val  []byte   `json:"val"`
	// the database path is a symbolic link to the real file in the same directory (a legal, if
	// uncommon, way to place the file): nothing changes about what must hold
	Symlink bool `json:"symlink,omitempty"`
}

type faultResult struct {
	f     Fault
	v     *h.Violation
	fired bool
}

var retryOp = dbx.Op{Kind: "put", Name: "retry-probe", Val: []byte("after-the-fault")}

// concreteOp derives the mutating call from the model so that it succeeds and saves.
func concreteOp(tr *dbx.Tracker, kind string, arg int, val []byte) dbx.Op {
	names := tr.M.Names()
	pick := func(cands []string) string { return cands[arg%len(cands)] }
	switch kind {
	case "put-version":
		if len(names) > 0 {
			n := pick(names)
			s := tr.M[n]
			v := append([]byte("nv-"), val...)
			if s.Vers[s.Latest] == string(v) {
				v = append(v, '!')
			}
			return dbx.Op{Kind: "put", Name: n, Val: v}
		}
	case "activate":
		for i := range names {
			n := names[(i+arg)%len(names)]
			s := tr.M[n]
			for v := range s.Vers {
				if v != s.Active {
					return dbx.Op{Kind: "activate", Name: n, VSel: "abs", VArg: int(v)}
				}
			}
		}
	case "delete-version":
		for i := range names {
			n := names[(i+arg)%len(names)]
			s := tr.M[n]
			for v := range s.Vers {
				if v != s.Active {
					return dbx.Op{Kind: "delver", Name: n, VSel: "abs", VArg: int(v)}
				}
			}
		}
	case "delete":
		if len(names) > 0 {
			return dbx.Op{Kind: "del", Name: pick(names)}
		}
	}
	return dbx.Op{Kind: "put", Name: fmt.Sprintf("fresh-%d", arg), Val: append([]byte("v-"), val...)}
}

func runC04(t *testing.T, c FaultCase) (*h.Violation, h.Info) {
	var info h.Info
	root := h.Scratch(t)
	defer os.RemoveAll(root)
	create := c.Kind == "create-db"
	// 1. pre-state, built untraced and in-process
	preDir := filepath.Join(root, "pre")
	os.MkdirAll(preDir, 0o700)
	tr := dbx.NewTracker()
	su := dbx.Super()
	var preBytes []byte
	if !create {
		d, err := dbx.OpenDiscard(filepath.Join(preDir, "db"), dbx.DummyKey())
		if err != nil {
			return h.V("harness", "open: %v", err), info
		}
		for _, op := range c.Pre {
			ver := tr.Resolve(op)
			want := tr.Expect(su.Rules, op, ver)
			if diff := dbx.Compare(dbx.DBTarget{D: d}.Do(su, op, ver), want); diff != "" {
				return h.V("harness", "pre-state %s: %s", op, diff), info
			}
		}
		preBytes, _ = os.ReadFile(filepath.Join(preDir, "db"))
	}
	op := concreteOp(tr, c.Kind, c.Arg, c.Val)
	if create {
		op = dbx.Op{Kind: "create-db"}
	}
	opKind := c.Kind
	if !create && op.Kind == "put" && tr.M[op.Name] == nil {
		opKind = "put-new"
	}
	info.Class("op-" + opKind)
	pre := tr.Clone()
	post := tr.Clone()
	if !create {
		if r := post.Expect(su.Rules, op, uint32(op.VArg)); r.Class != model.OK {
			return h.V("harness", "derived operation %s would not succeed: %s", op, r), info
		}
	}
	preR, postR := pre.M.Render(false), post.M.Render(false)
	preRetry, postRetry := pre.Clone(), post.Clone()
	preRetry.Expect(su.Rules, retryOp, 0)
	postRetry.Expect(su.Rules, retryOp, 0)
	opJSON, _ := json.Marshal(op)
	retryJSON, _ := json.Marshal(retryOp)
	mode := "db"
	if create {
		mode = "create"
	}
	var seq int
	var seqMu sync.Mutex
	freshDir := func() (dir, path string) {
		seqMu.Lock()
		seq++
		n := seq
		seqMu.Unlock()
		dir = filepath.Join(root, fmt.Sprintf("r%d", n))
		os.MkdirAll(dir, 0o700)
		path = filepath.Join(dir, "db")
		if !create {
			if c.Symlink {
				os.WriteFile(path+".real", preBytes, 0o600)
				os.Symlink("db.real", path)
			} else {
				os.WriteFile(path, preBytes, 0o600)
			}
		}
		return
	}
	run := func(f *Fault) (runOut, string, string) {
		dir, path := freshDir()
		var exprs []string
		limit := int64(-1)
		if f != nil {
			exprs, limit = f.inject()
		}
		args := []string{mode, path, fmt.Sprint(limit), string(opJSON), string(retryJSON)}
		if f != nil && f.Seq%2 == 0 {
			args = append(args, "same") // every other fault of the plan: the client repeats the identical call first
		}
		o := runChild(dir, exprs, args...)
		return o, dir, path
	}
	// 2. dry run: the syscalls of the window
	dry, dryDir, dryPath := run(nil)
	if dry.Err != nil {
		return h.V("harness", "dry run: %v", dry.Err), info
	}
	win, resW, ok := window(dry.Main)
	if !ok || !strings.Contains(dry.Stdout, "\nEND") {
		return h.V("harness", "dry run did not complete: %q", dry.Stdout), info
	}
	if got, _ := stdoutField(dry.Stdout, "DUMP"); unquote(got) != postR {
		return h.V("result-equals-model", "un-faulted %s produced state %s, model says %s", op, got, postR), info
	}
	dryTarget := ""
	if c.Symlink && !create {
		dryTarget = dryPath + ".real"
	}
	if v := monitor(win, dryPath, dryTarget); v != nil {
		v.Detail = fmt.Sprintf("%s (operation %s): %s", opKind, op, v.Detail)
		return v, info
	}
	os.RemoveAll(dryDir)
	plan := enumerate(win, resW)
	// 3. every fault of the plan, in parallel
	results := make([]faultResult, len(plan))
	sem := make(chan struct{}, 16)
	var wg sync.WaitGroup
	for i := range plan {
		wg.Add(1)
		sem <- struct{}{}
		go func() {
			defer wg.Done()
			defer func() { <-sem }()
			f := plan[i]
			f.Seq = i
			o, dir, path := run(&f)
			defer os.RemoveAll(dir)
			results[i] = faultResult{f: f, fired: o.Err == nil && fired(f, o)}
			if o.Err != nil {
				results[i].v = h.V("harness", "%s: %v", f, o.Err)
				return
			}
			results[i].v = judge(f, o, path, create, op, preBytes, preR, postR, preRetry.M.Render(false), postRetry.M.Render(false))
			if results[i].v == nil {
				// also when a step fails, the way out is never to write the live file in place
				target := ""
				if c.Symlink && !create {
					target = path + ".real"
				}
				if v := monitorInPlace(windowOpen(o.Main), path, target); v != nil {
					v.Detail = fmt.Sprintf("with %s: %s", f, v.Detail)
					results[i].v = v
				}
			}
		}()
	}
	wg.Wait()
	firedN := 0
	for _, r := range results {
		if r.fired {
			firedN++
			info.Class("fault-" + r.f.Kind)
			info.Class("at-" + r.f.Call)
		}
	}
	info.NonTrivial = firedN > 0
	info.Class(fmt.Sprintf("window-%d-calls", len(win)))
	for _, r := range results {
		if r.v != nil && r.v.Clause != "harness" {
			r.v.Detail = fmt.Sprintf("%s (%s) with %s: %s", opKind, op, r.f, r.v.Detail)
			return r.v, info
		}
	}
	for _, r := range results {
		if r.v != nil {
			return r.v, info
		}
	}
	ps := planSummary{Op: opKind, Window: len(win), Faults: len(plan), Fired: firedN}
	for _, c := range win {
		if _, ok := fsCalls[c.Name]; ok {
			ps.Calls = append(ps.Calls, c.Name)
		}
	}
	for i, r := range results {
		if r.fired && i%7 == 0 && len(ps.Examples) < 8 {
			ps.Examples = append(ps.Examples, r.f.String())
		}
	}
	lastPlan.Store(ps)
	faultsRun.Add(int64(len(plan)))
	faultsFired.Add(int64(firedN))
	for _, r := range results {
		if r.fired {
			distinctFaults.Store(fmt.Sprintf("%s/%s/%d/%s/%s/%d", opKind, r.f.Call, r.f.Index, r.f.Kind, r.f.Errno, r.f.Limit), true)
		}
	}
	return nil, info
}

func unquote(s string) string {
	var out string
	if json.Unmarshal([]byte(s), &out) == nil {
		return out
	}
	return s
}

// judge applies the all-or-nothing oracle to one faulted run.
func judge(f Fault, o runOut, path string, create bool, op dbx.Op, preBytes []byte, preR, postR, preRetryR, postRetryR string) *h.Violation {
	key := dbx.DummyKey()
	openDump := func() (string, error) {
		d, err := dbx.OpenDiscard(path, key)
		if err != nil {
			return "", err
		}
		kv, err := dbx.Dump(d)
		if err != nil {
			return "", err
		}
		return kv.Render(false), nil
	}
	res, hasRes := stdoutField(o.Stdout, "RESULT")
	if o.Killed || !strings.Contains(o.Stdout, "\nEND") {
		if !o.Killed {
			return h.V("harness", "child neither finished nor was killed: exit %d stdout %q", o.ExitCode, o.Stdout)
		}
		// killed: the file must open and hold the complete pre- or post-state
		if _, err := os.Stat(path); err != nil {
			if create {
				if _, err := openDump(); err != nil {
					return h.V("after-a-kill-the-file-opens", "database creation was killed, no file was left, and a fresh Open fails: %v", err)
				}
				return nil
			}
			return h.V("after-a-kill-the-file-opens", "the database file is gone after the kill: %v", err)
		}
		got, err := openDump()
		if err != nil {
			return h.V("after-a-kill-the-file-opens", "the database file does not open after the kill: %v", err)
		}
		if got != preR && got != postR {
			return h.V("after-a-kill-complete-pre-or-post-state", "after the kill the file holds\n    %s\n  pre-call state\n    %s\n  post-call state\n    %s", got, preR, postR)
		}
		// life goes on after the restart: the next saves - each SMALLER than the one that was
		// interrupted - must leave a file that opens with exactly what is served
		d, err := dbx.OpenDiscard(path, key)
		if err != nil {
			return h.V("after-a-kill-the-file-opens", "second open after the kill: %v", err)
		}
		kv, err := dbx.Dump(d)
		if err != nil {
			return h.V("after-a-kill-the-file-opens", "dump after the kill: %v", err)
		}
		su := dbx.Super()
		for _, n := range kv.Names() {
			if r := (dbx.DBTarget{D: d}).Do(su, dbx.Op{Kind: "del", Name: n}, 0); r.Class != model.OK {
				return h.V("later-calls-succeed-normally", "after the kill and a restart, delete(%q) failed: %s", n, r.Err)
			}
		}
		if again, err := openDump(); err != nil || again != (model.KV{}).Render(false) {
			return h.V("after-a-kill-the-file-opens", "after the kill, a restart and deleting every secret (saves smaller than the interrupted one), the file holds %q / does not open: %v", again, err)
		}
		return nil
	}
	// not killed: the call returned
	if !hasRes {
		return h.V("harness", "no RESULT line: %q", o.Stdout)
	}
	var r struct {
		Class string `json:"class"`
		Err   string `json:"err"`
	}
	json.Unmarshal([]byte(res), &r)
	mem, _ := stdoutField(o.Stdout, "DUMP")
	mem = unquote(mem)
	retry, _ := stdoutField(o.Stdout, "RETRY")
	mem2, _ := stdoutField(o.Stdout, "DUMP2")
	mem2 = unquote(mem2)
	wantNow, wantAfterRetry := postR, postRetryR
	if r.Class != "ok" {
		wantNow, wantAfterRetry = preR, preRetryR
	}
	if mem != wantNow {
		if r.Class != "ok" {
			return h.V("failed-call-leaves-served-state-unchanged", "the call reported %q, but the running process now serves\n    %s\n  pre-call state\n    %s", r.Err, mem, preR)
		}
		return h.V("result-equals-model", "the call reported success, the process serves %s, model says %s", mem, postR)
	}
	if r.Class != "ok" {
		// the file on disk right after the failed call (before the retry rewrites it)
		onDisk, _ := stdoutField(o.Stdout, "FILE")
		want := "absent"
		if !create {
			want = fmt.Sprintf("%x", sha256.Sum256(preBytes))
		}
		if onDisk != want {
			return h.V("failed-call-leaves-file-unchanged", "the call reported %q, but the file on disk is no longer the pre-call file (now: %s, before: %s)", r.Err, onDisk, want)
		}
	}
	if same, ok := stdoutField(o.Stdout, "SAME"); ok {
		// the identical call was repeated straight after the failure: it must now succeed, be served, and be on disk
		if !strings.Contains(same, `"class":"ok"`) {
			return h.V("later-calls-succeed-normally", "after the call reported %q, the identical call repeated at once failed too: %s", r.Err, same)
		}
		memS, _ := stdoutField(o.Stdout, "DUMPSAME")
		if unquote(memS) != postR {
			return h.V("later-calls-succeed-normally", "after the repeated call succeeded the process serves %s, model says %s", unquote(memS), postR)
		}
		d, err := dbx.OpenDiscard(path+".same", key)
		if err != nil {
			return h.V("later-calls-succeed-normally", "the file as it was after the repeated, acknowledged call does not open: %v", err)
		}
		kv, err := dbx.Dump(d)
		if err != nil || kv.Render(false) != postR {
			return h.V("acknowledged-retry-is-on-disk", "the call failed (%q) and was repeated at once with success, but the file on disk then held\n    %s (%v)\n  expected\n    %s", r.Err, kv.Render(false), err, postR)
		}
		wantAfterRetry = postRetryR
	}
	if !strings.Contains(retry, `"class":"ok"`) {
		return h.V("later-calls-succeed-normally", "after the call reported %q (%s), the next mutating call failed: %s", r.Err, r.Class, retry)
	}
	if mem2 != wantAfterRetry {
		return h.V("later-calls-succeed-normally", "after the next call the process serves %s, model says %s", mem2, wantAfterRetry)
	}
	// on disk: exactly what the process serves after the retry (the retry saved everything)
	got, err := openDump()
	if err != nil {
		return h.V("after-an-error-the-file-opens", "after an injected error (call result %s) the file does not open: %v", r.Class, err)
	}
	if got != wantAfterRetry {
		return h.V("failed-call-leaves-file-unchanged", "call result %s (%q): after the following successful call the file holds\n    %s\n  expected\n    %s", r.Class, r.Err, got, wantAfterRetry)
	}
	_ = bytes.Equal
	return nil
}

type planSummary struct {
	Op       string   `json:"op"`
	Window   int      `json:"window_calls"`
	Calls    []string `json:"window"` // the file-system calls of the traced save window, in order
	Faults   int      `json:"faults_in_plan"`
	Fired    int      `json:"faults_fired"`
	Examples []string `json:"example_faults"`
}

var (
	lastPlan       = &syncValue{}
	faultsRun      = &counter{}
	faultsFired    = &counter{}
	distinctFaults sync.Map
)

type syncValue struct {
	mu sync.Mutex
	v  any
}

func (s *syncValue) Store(v any) { s.mu.Lock(); s.v = v; s.mu.Unlock() }
func (s *syncValue) Load() any   { s.mu.Lock(); defer s.mu.Unlock(); return s.v }

type counter struct {
	mu sync.Mutex
	n  int64
}

func (c *counter) Add(n int64) { c.mu.Lock(); c.n += n; c.mu.Unlock() }
func (c *counter) Load() int64 { c.mu.Lock(); defer c.mu.Unlock(); return c.n }

var c04Kinds = []string{"create-db", "put-new", "put-version", "activate", "delete-version", "delete"}

func genFaultCase(rt *rapid.T) FaultCase {
	c := FaultCase{Kind: rapid.SampledFrom(c04Kinds).Draw(rt, "kind"), Arg: rapid.IntRange(0, 5).Draw(rt, "arg"), Val: rapid.SliceOfN(rapid.Byte(), 0, 40).Draw(rt, "val"), Symlink: rapid.IntRange(0, 3).Draw(rt, "symlink") == 0}
	base := []dbx.Op{{Kind: "put", Name: "a", Val: []byte("x")}, {Kind: "put", Name: "a", Val: []byte("y")}, {Kind: "put", Name: "b", Val: []byte("z")}}
	more := rapid.SliceOfN(rapid.Custom(func(rt *rapid.T) dbx.Op {
		return dbx.GenOp(rt, []string{"a", "b", "dev/c"}, []string{"put", "put", "activate", "delver", "del"}, 1)
	}), 0, 6).Draw(rt, "pre")
	if rapid.IntRange(0, 4).Draw(rt, "emptypre") != 0 {
		c.Pre = append(base, more...)
	} else {
		c.Pre = more
	}
	return c
}

var c04 = &h.Campaign[FaultCase]{
	Prop: "C04", Sub: "faults",
	Rule: "rapid draws (pre-state history, kind of mutating call incl. database creation); for each, a child process performs the call under strace: a dry run yields the exact file-system syscalls of the save window, then the COMPLETE plan is executed, one child per fault: every errno of a per-syscall list injected at every window position, SIGKILL before every position and after the last, and real short writes (RLIMIT_FSIZE at 0/1/half/len-1 bytes) alone and followed by SIGKILL; kill => the file opens and holds the complete pre- or post-state, and after a restart further (smaller) saves leave a file that opens; in one case of four the database path is a symbolic link; error => result, served state, a following call and the file agree with all-or-nothing - for every other fault the following call is the IDENTICAL call repeated at once, which must succeed and be on disk at that moment; the un-faulted trace is monitored for: payload written to a file other than the live one, that file fsynced before it is renamed over the live file; every trace, faulted or not, for: the live file never opened for writing or truncated; non-trivial = a case in which faults really fired inside the window (checked in strace's log); the evidence also counts distinct fired (op kind, syscall, position, fault type) tuples",
	Quick: 24, Thorough: 2000,
	Gen:   genFaultCase,
	Run:   runC04,
}

func init() { c04.Register() }

func TestC04Faults(t *testing.T) {
	if _, err := os.Stat(childBin); err != nil {
		t.Fatalf("faultchild not built: %v", err)
	}
	// every kind of mutating call once, deterministically, before the generated cases
	rec := h.NewRec("C04", "faults-per-kind", "one fixed (pre-state, call) per kind of mutating call (create-db, put-new, put-version, activate, delete-version, delete) with the complete fault plan of its traced window; distinct by kind; every kind is non-trivial when faults fired")
	base := []dbx.Op{{Kind: "put", Name: "a", Val: []byte("x")}, {Kind: "put", Name: "a", Val: []byte("y")}, {Kind: "put", Name: "b", Val: []byte("z")}}
	sh0, _ := h.Shard()
	for _, k := range c04Kinds {
		if sh0 != 0 {
			break
		}
		c := FaultCase{Pre: base, Kind: k, Val: []byte("fixed")}
		v, info := runC04(t, c)
		rec.Case(k, info, map[string]any{"kind": k, "plan": lastPlan.Load()})
		if v != nil {
			rec.Flush()
			p := h.WriteFailure("C04", "faults", v, c)
			h.Report("C04", "faults", v, p)
			t.Fatalf("%s: %s", v.Clause, v.Detail)
		}
	}
	rec.Set("sum_faults_run", faultsRun.Load())
	rec.Set("sum_faults_fired", faultsFired.Load())
	rec.Exhaustive()
	rec.Completed()
	rec.Flush()
	c04.Check(t)
	// after the generated campaign: totals
	tot := h.NewRec("C04", "fault-totals", "totals over both sub-campaigns: distinct fired (operation kind, syscall, window position, fault type, errno/limit) tuples")
	n := 0
	distinctFaults.Range(func(k, _ any) bool { tot.AddNonTrivial(k); n++; return true })
	tot.AddEvaluations(int(faultsRun.Load()))
	tot.Set("sum_faults_run", faultsRun.Load())
	tot.Set("sum_faults_fired", faultsFired.Load())
	tot.AddSample(lastPlan.Load())
	tot.Completed()
	tot.Flush()
}
