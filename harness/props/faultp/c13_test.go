package faultp

import (
	"bytes"
	"fmt"
	"os"
	"path/filepath"
	"strings"
	"sync"
	"testing"

	"github.com/tailscale/setec/client/setec"
	"pgregory.net/rapid"
	"verifharness/h"
	"verifharness/model"
)

// ---- C13 (crash part): FileCache.Write is replaced atomically ----------------------

type CacheFaultCase struct {
	HasOld bool   `json:"has_old"` // a previous document exists
	OldN   int    `json:"old_n"`   // number of entries in the old document
	NewN   int    `json:"new_n"`
	Pad    []byte `json:"pad"`
}

func cacheDoc(tag string, n int, pad []byte) []byte {
	doc := model.CacheDoc{}
	for i := 0; i < n; i++ {
		doc[fmt.Sprintf("%s-secret-%d", tag, i)] = model.CacheEntry{Version: uint32(i + 1), Value: append([]byte(tag+"-value-"), pad...), LastAccess: int64(1700000000 + i)}
	}
	return model.EncodeCache(doc)
}

func runC13Faults(t *testing.T, c CacheFaultCase) (*h.Violation, h.Info) {
	var info h.Info
	root := h.Scratch(t)
	defer os.RemoveAll(root)
	oldDoc, newDoc, retryDoc := cacheDoc("old", c.OldN, c.Pad), cacheDoc("new", c.NewN, c.Pad), cacheDoc("retry", 2, c.Pad)
	newFile, retryFile := filepath.Join(root, "new.json"), filepath.Join(root, "retry.json")
	os.WriteFile(newFile, newDoc, 0o600)
	os.WriteFile(retryFile, retryDoc, 0o600)
	var seq int
	var mu sync.Mutex
	fresh := func() (dir, path string) {
		mu.Lock()
		seq++
		n := seq
		mu.Unlock()
		dir = filepath.Join(root, fmt.Sprintf("r%d", n))
		os.MkdirAll(filepath.Join(dir, "cache"), 0o700)
		path = filepath.Join(dir, "cache", "secrets.json")
		if c.HasOld {
			os.WriteFile(path, oldDoc, 0o600)
		}
		return
	}
	run := func(f *Fault) (runOut, string, string) {
		dir, path := fresh()
		var exprs []string
		limit := int64(-1)
		if f != nil {
			exprs, limit = f.inject()
		}
		return runChild(dir, exprs, "cache", path, fmt.Sprint(limit), newFile, retryFile), dir, path
	}
	dry, dryDir, dryPath := run(nil)
	if dry.Err != nil {
		return h.V("harness", "dry run: %v", dry.Err), info
	}
	win, resW, ok := window(dry.Main)
	if !ok || !strings.Contains(dry.Stdout, "\nEND") {
		return h.V("harness", "dry run did not complete: %q", dry.Stdout), info
	}
	if v := monitor(win, dryPath); v != nil {
		v.Clause = "cache-file-replaced-atomically/" + v.Clause
		return v, info
	}
	if st, err := os.Stat(dryPath); err != nil || st.Mode().Perm() != 0o600 {
		return h.V("owner-only-permissions", "cache file after a write: %v %v", st, err), info
	}
	os.RemoveAll(dryDir)
	plan := enumerate(win, resW)
	type res struct {
		f     Fault
		v     *h.Violation
		fired bool
	}
	results := make([]res, len(plan))
	sem := make(chan struct{}, 16)
	var wg sync.WaitGroup
	for i := range plan {
		wg.Add(1)
		sem <- struct{}{}
		go func() {
			defer wg.Done()
			defer func() { <-sem }()
			f := plan[i]
			o, dir, path := run(&f)
			defer os.RemoveAll(dir)
			results[i] = res{f: f, fired: o.Err == nil && fired(f, o)}
			if o.Err != nil {
				results[i].v = h.V("harness", "%s: %v", f, o.Err)
				return
			}
			got, rerr := os.ReadFile(path)
			if o.Killed || !strings.Contains(o.Stdout, "\nEND") {
				switch {
				case rerr != nil && c.HasOld:
					results[i].v = h.V("crash-leaves-old-or-new-document", "after the kill the cache file is unreadable: %v", rerr)
				case rerr != nil:
				case bytes.Equal(got, newDoc) || (c.HasOld && bytes.Equal(got, oldDoc)):
				default:
					results[i].v = h.V("crash-leaves-old-or-new-document", "after the kill the cache file holds %d bytes that are neither the old (%d) nor the new (%d) document: %.80q", len(got), len(oldDoc), len(newDoc), got)
				}
				if results[i].v == nil {
					// life goes on: the next process writes its cache - whatever the killed writer left
					// behind in the directory - and finds it again (a shorter document, then the new one)
					fc, err := setec.NewFileCache(path)
					if err != nil {
						results[i].v = h.V("after-a-kill-the-cache-is-usable", "after the kill NewFileCache(%s) fails: %v", path, err)
						return
					}
					for _, doc := range [][]byte{retryDoc, newDoc} {
						if err := fc.Write(doc); err != nil {
							results[i].v = h.V("after-a-kill-the-cache-is-usable", "after the kill the next process cannot write its cache: %v (directory now holds %v)", err, lsDir(filepath.Dir(path)))
							return
						}
						if back, err := fc.Read(); err != nil || !bytes.Equal(back, doc) {
							results[i].v = h.V("after-a-kill-the-cache-is-usable", "after the kill the next process wrote %d bytes and reads back %d bytes (%v)", len(doc), len(back), err)
							return
						}
					}
				}
				return
			}
			r, _ := stdoutField(o.Stdout, "RESULT")
			retry, _ := stdoutField(o.Stdout, "RETRY")
			if !strings.Contains(retry, `"class":"ok"`) {
				results[i].v = h.V("write-error-leaves-cache-usable", "after a failed write the next write failed too: %s", retry)
				return
			}
			if !bytes.Equal(got, retryDoc) {
				results[i].v = h.V("write-error-leaves-cache-usable", "after the retry the file holds %d bytes, not the retried document", len(got))
				return
			}
			dump, _ := stdoutField(o.Stdout, "DUMP")
			wantLen := len(newDoc)
			if !strings.Contains(r, `"class":"ok"`) {
				wantLen = len(oldDoc)
				if !c.HasOld {
					wantLen = 0
				}
			}
			if !strings.HasPrefix(dump, fmt.Sprintf("%d ", wantLen)) {
				results[i].v = h.V("write-error-leaves-old-document", "write result %s; reading the cache right afterwards gave %q, expected %d bytes", r, dump, wantLen)
			}
		}()
	}
	wg.Wait()
	n := 0
	for _, r := range results {
		if r.fired {
			n++
			info.Class("fault-" + r.f.Kind)
			cacheDistinct.Store(fmt.Sprintf("%v/%s/%d/%s/%s/%d", c.HasOld, r.f.Call, r.f.Index, r.f.Kind, r.f.Errno, r.f.Limit), true)
		}
	}
	cacheRun.Add(int64(len(plan)))
	info.NonTrivial = n > 0
	for _, r := range results {
		if r.v != nil && r.v.Clause != "harness" {
			r.v.Detail = fmt.Sprintf("FileCache.Write (old document present=%v) with %s: %s", c.HasOld, r.f, r.v.Detail)
			return r.v, info
		}
	}
	for _, r := range results {
		if r.v != nil {
			return r.v, info
		}
	}
	return nil, info
}

func lsDir(d string) []string {
	es, _ := os.ReadDir(d)
	var out []string
	for _, e := range es {
		out = append(out, e.Name())
	}
	return out
}

var (
	cacheDistinct sync.Map
	cacheRun      = &counter{}
)

var c13faults = &h.Campaign[CacheFaultCase]{
	Prop: "C13", Sub: "filecache-faults",
	Rule: "rapid draws (old document present or not, sizes); a child process performs FileCache.Write under strace and the complete fault plan of the traced window is executed (every errno at every position, SIGKILL before every position and after the last, short writes via RLIMIT_FSIZE alone and followed by SIGKILL); kill => the file is byte-exactly the old or the new document; error => the old document is still there and the next write succeeds; the un-faulted trace is monitored (temporary in the same directory with payload to another file, fsync before rename, no in-place write), mode 0600; non-trivial = faults fired inside the window; distinct by scenario",
	Quick: 6, Thorough: 400,
	Gen: func(rt *rapid.T) CacheFaultCase {
		return CacheFaultCase{HasOld: rapid.Bool().Draw(rt, "hasold"), OldN: rapid.IntRange(0, 4).Draw(rt, "oldn"), NewN: rapid.IntRange(0, 4).Draw(rt, "newn"), Pad: rapid.SliceOfN(rapid.Byte(), 0, 200).Draw(rt, "pad")}
	},
	Run: runC13Faults,
}

func init() { c13faults.Register() }

func TestC13FileCacheFaults(t *testing.T) {
	if _, err := os.Stat(childBin); err != nil {
		t.Fatalf("faultchild not built: %v", err)
	}
	for _, c := range []CacheFaultCase{{HasOld: true, OldN: 2, NewN: 3, Pad: []byte("pad")}, {HasOld: false, NewN: 1}} {
		if v, _ := runC13Faults(t, c); v != nil {
			p := h.WriteFailure("C13", "filecache-faults", v, c)
			h.Report("C13", "filecache-faults", v, p)
			t.Fatalf("%s: %s", v.Clause, v.Detail)
		}
	}
	c13faults.Check(t)
	tot := h.NewRec("C13", "filecache-fault-totals", "distinct fired (old document present, syscall, window position, fault type, errno/limit) tuples over all FileCache fault runs")
	cacheDistinct.Range(func(k, _ any) bool { tot.AddNonTrivial(k); return true })
	tot.AddEvaluations(int(cacheRun.Load()))
	tot.AddSample(map[string]any{"faults_run": cacheRun.Load()})
	tot.Completed()
	tot.Flush()
}
