package faultp

import (
	"bytes"
	"fmt"
	"os"
	"os/exec"
	"path/filepath"
	"regexp"
	"sort"
	"strings"
	"sync/atomic"
	"testing"
	"time"

	"verifharness/h"
)

// ---- strace fault engine ------------------------------------------------------------

type sysCall struct {
	Name    string // syscall name
	Ordinal int    // 1-based count of this syscall on the main thread since process start
	Line    string
}

type runOut struct {
	Stdout   string
	Killed   bool
	ExitCode int
	Main     []sysCall // all syscalls of the main thread, in order
	Trace    string    // raw trace of the main thread
	Err      error
}

var childBin = filepath.Join(envOr("VERIF_BUILD", "/verif/.build"), "faultchild")

func envOr(k, d string) string {
	if v := os.Getenv(k); v != "" {
		return v
	}
	return d
}

var callRE = regexp.MustCompile(`^([a-z_0-9]+)\(`)

var straceSeq atomic.Int64

// runChild runs faultchild under strace with the given injection expressions.
func runChild(dir string, inject []string, args ...string) runOut {
	prefix := filepath.Join(dir, fmt.Sprintf("trace%d", straceSeq.Add(1)))
	cmdArgs := []string{"-ff", "-qq", "-o", prefix}
	for _, in := range inject {
		cmdArgs = append(cmdArgs, "-e", "inject="+in)
	}
	cmdArgs = append(cmdArgs, childBin)
	cmdArgs = append(cmdArgs, args...)
	cmd := exec.Command("strace", cmdArgs...)
	var so, se bytes.Buffer
	cmd.Stdout, cmd.Stderr = &so, &se
	done := make(chan error, 1)
	if err := cmd.Start(); err != nil {
		return runOut{Err: err}
	}
	go func() { done <- cmd.Wait() }()
	var werr error
	select {
	case werr = <-done:
	case <-time.After(60 * time.Second):
		cmd.Process.Kill()
		<-done
		return runOut{Err: fmt.Errorf("strace run timed out; stderr %s", se.String())}
	}
	out := runOut{Stdout: so.String()}
	if ee, ok := werr.(*exec.ExitError); ok {
		out.ExitCode = ee.ExitCode()
	} else if werr != nil {
		out.Err = werr
		return out
	}
	files, _ := filepath.Glob(prefix + ".*")
	for _, f := range files {
		b, err := os.ReadFile(f)
		os.Remove(f)
		if err != nil || !bytes.Contains(b, []byte("execve(")) {
			continue
		}
		out.Trace = string(b)
	}
	if out.Trace == "" {
		out.Err = fmt.Errorf("no main-thread trace found (strace stderr: %s)", se.String())
		return out
	}
	counts := map[string]int{}
	for _, line := range strings.Split(out.Trace, "\n") {
		if m := callRE.FindStringSubmatch(line); m != nil {
			counts[m[1]]++
			out.Main = append(out.Main, sysCall{Name: m[1], Ordinal: counts[m[1]], Line: line})
		}
		if strings.Contains(line, "+++ killed by SIGKILL") {
			out.Killed = true
		}
	}
	return out
}

// window returns the main-thread syscalls strictly between the BEGIN marker
// write and the RESULT marker write, plus the RESULT write itself as last element.
func window(calls []sysCall) (win []sysCall, resultWrite sysCall, ok bool) {
	in := false
	for _, c := range calls {
		if c.Name == "write" && strings.HasPrefix(c.Line, `write(1, "BEGIN\n"`) {
			in = true
			continue
		}
		if in && c.Name == "write" && strings.HasPrefix(c.Line, `write(1, "RESULT`) {
			return win, c, true
		}
		if in {
			win = append(win, c)
		}
	}
	return nil, sysCall{}, false
}

// windowOpen returns the calls after BEGIN up to RESULT - or up to the end of the trace when the
// child did not get that far (it was killed).
func windowOpen(calls []sysCall) []sysCall {
	var win []sysCall
	in := false
	for _, c := range calls {
		if c.Name == "write" && strings.HasPrefix(c.Line, `write(1, "BEGIN\n"`) {
			in = true
			continue
		}
		if in && c.Name == "write" && strings.HasPrefix(c.Line, `write(1, "RESULT`) {
			break
		}
		if in {
			win = append(win, c)
		}
	}
	return win
}

// fsCalls are the calls whose failure or interruption the property quantifies over.
var fsCalls = map[string][]string{
	"newfstatat": {"EIO", "EACCES"},
	"openat":     {"EACCES", "ENOSPC", "EMFILE"},
	"write":      {"EIO", "ENOSPC"},
	"fchmod":     {"EPERM", "EIO"},
	"fsync":      {"EIO", "ENOSPC"},
	"close":      {"EIO"},
	"renameat":   {"EXDEV", "EACCES", "EIO"},
	"unlinkat":   {"EIO"},
	"fcntl":      {"EINVAL"},
	"mkdirat":    {"EACCES"},
}

type Fault struct {
	Kind    string `json:"kind"` // error | kill | partial | partial+kill
	Call    string `json:"call,omitempty"`
	Ordinal int    `json:"ordinal,omitempty"`
	Index   int    `json:"index"` // position in the window (len(window) = "after the last call")
	Errno   string `json:"errno,omitempty"`
	Limit   int64  `json:"limit,omitempty"`
	Seq     int    `json:"-"` // position in the plan
}

func (f Fault) String() string {
	switch f.Kind {
	case "error":
		return fmt.Sprintf("%s returns %s at window position %d", f.Call, f.Errno, f.Index)
	case "kill":
		return fmt.Sprintf("SIGKILL before %s at window position %d", f.Call, f.Index)
	case "partial":
		return fmt.Sprintf("write cut short after %d bytes (RLIMIT_FSIZE), next write fails", f.Limit)
	default:
		return fmt.Sprintf("write cut short after %d bytes, then SIGKILL before the next write", f.Limit)
	}
}

func (f Fault) inject() (exprs []string, limit int64) {
	limit = -1
	switch f.Kind {
	case "error":
		exprs = []string{fmt.Sprintf("%s:error=%s:when=%d", f.Call, f.Errno, f.Ordinal)}
	case "kill":
		exprs = []string{fmt.Sprintf("%s:signal=SIGKILL:when=%d", f.Call, f.Ordinal)}
	case "partial":
		limit = f.Limit
	case "partial+kill":
		limit = f.Limit
		exprs = []string{fmt.Sprintf("write:signal=SIGKILL:when=%d", f.Ordinal)}
	}
	return
}

// enumerate builds the complete fault plan for a traced window.
func enumerate(win []sysCall, resultWrite sysCall) []Fault {
	var fs []Fault
	payload := int64(-1)
	payloadOrd := 0
	for i, c := range win {
		errnos, isFS := fsCalls[c.Name]
		if !isFS {
			continue
		}
		for _, e := range errnos {
			fs = append(fs, Fault{Kind: "error", Call: c.Name, Ordinal: c.Ordinal, Index: i, Errno: e})
		}
		fs = append(fs, Fault{Kind: "kill", Call: c.Name, Ordinal: c.Ordinal, Index: i})
		if c.Name == "write" && payload < 0 {
			if m := regexp.MustCompile(`, (\d+)\)\s+= (\d+)`).FindStringSubmatch(c.Line); m != nil {
				fmt.Sscan(m[1], &payload)
				payloadOrd = c.Ordinal
			}
		}
	}
	fs = append(fs, Fault{Kind: "kill", Call: "write", Ordinal: resultWrite.Ordinal, Index: len(win)})
	if payload > 1 {
		seen := map[int64]bool{}
		for _, l := range []int64{0, 1, payload / 2, payload - 1} {
			if seen[l] {
				continue
			}
			seen[l] = true
			fs = append(fs, Fault{Kind: "partial", Limit: l, Index: -1})
			if l > 0 {
				fs = append(fs, Fault{Kind: "partial+kill", Limit: l, Ordinal: payloadOrd + 1, Index: -1})
			}
		}
	}
	return fs
}

// fired reports whether the injected fault really happened inside the window.
func fired(f Fault, o runOut) bool {
	switch f.Kind {
	case "error":
		for _, c := range o.Main {
			if c.Name == f.Call && c.Ordinal == f.Ordinal {
				return strings.Contains(c.Line, "(INJECTED)")
			}
		}
		return false
	case "kill", "partial+kill":
		return o.Killed
	case "partial":
		return strings.Contains(o.Trace, "EFBIG")
	}
	return false
}

// monitor checks the third sentence of C04 on an un-faulted trace: new contents go
// to a separate file (any other file: the property fixes neither its place nor its name), are flushed to
// stable storage before they replace the live file, which is never written in place.
func monitor(win []sysCall, live string, alsoLive ...string) *h.Violation {
	// the live file may be reached under more than one name (the path given, and - when that is a
	// symbolic link - the file it points to): replacing either one atomically is replacing the live file
	isLive := func(name string) bool {
		if name == live {
			return true
		}
		for _, a := range alsoLive {
			if a != "" && name == a {
				return true
			}
		}
		return false
	}
	renameOntoLive := func(line, tmp string) bool {
		if !strings.Contains(line, `"`+tmp+`"`) {
			return false
		}
		if strings.Contains(line, `"`+live+`"`) {
			return true
		}
		for _, a := range alsoLive {
			if a != "" && strings.Contains(line, `"`+a+`"`) {
				return true
			}
		}
		return false
	}
	openRE := regexp.MustCompile(`^openat\(AT_FDCWD, "([^"]*)", ([A-Z_|0-9x]+)(?:, [0-7]+)?\)\s+= (-?\d+)`)
	tmpFD, tmpName := -1, ""
	synced, wrote, renamed := false, false, false
	for _, c := range win {
		switch c.Name {
		case "openat":
			m := openRE.FindStringSubmatch(c.Line)
			if m == nil {
				continue
			}
			name, flags := m[1], m[2]
			var fd int
			fmt.Sscan(m[3], &fd)
			writeMode := strings.Contains(flags, "O_WRONLY") || strings.Contains(flags, "O_RDWR") || strings.Contains(flags, "O_TRUNC") || strings.Contains(flags, "O_APPEND")
			if isLive(name) && writeMode {
				return h.V("live-file-never-written-in-place", "the live file was opened for writing: %s", c.Line)
			}
			if writeMode && fd >= 0 {
				// any other file will do as the separate file: the property does not say where it
				// lives, how it is named, or that it is created exclusively
				tmpFD, tmpName = fd, name
			}
		case "write":
			var fd int
			fmt.Sscanf(c.Line, "write(%d,", &fd)
			if fd == tmpFD && tmpFD >= 0 {
				wrote = true
				if synced {
					synced = false // written again after the flush
				}
			} else if fd > 2 {
				return h.V("live-file-never-written-in-place", "a write went to descriptor %d, which is not the temporary file: %s", fd, c.Line)
			}
		case "fsync", "fdatasync":
			var fd int
			fmt.Sscanf(c.Line, c.Name+"(%d)", &fd)
			if fd == tmpFD && wrote {
				synced = true
			}
		case "renameat", "rename", "renameat2":
			if !renameOntoLive(c.Line, tmpName) {
				return h.V("replaces-the-live-file-by-rename", "unexpected rename: %s (temporary %q, live %q)", c.Line, tmpName, live)
			}
			if !synced {
				return h.V("flushed-to-stable-storage-before-replacing", "the temporary file was renamed over the live file without a preceding fsync of its contents")
			}
			renamed = true
		case "truncate", "ftruncate":
			return h.V("live-file-never-written-in-place", "truncation during a save: %s", c.Line)
		}
	}
	if !renamed {
		return h.V("replaces-the-live-file-by-rename", "the save did not end in a rename onto the live file (temporary %q)", tmpName)
	}
	return nil
}

// monitorInPlace checks only the clause that must hold on EVERY run, faulted or not: the live file
// is never opened for writing, truncated, or written through a descriptor of its own.
func monitorInPlace(calls []sysCall, live string, alsoLive ...string) *h.Violation {
	isLive := func(name string) bool {
		if name == live {
			return true
		}
		for _, a := range alsoLive {
			if a != "" && name == a {
				return true
			}
		}
		return false
	}
	openRE := regexp.MustCompile(`^openat\(AT_FDCWD, "([^"]*)", ([A-Z_|0-9x]+)(?:, [0-7]+)?\)\s+= (-?\d+)`)
	for _, c := range calls {
		switch c.Name {
		case "openat":
			m := openRE.FindStringSubmatch(c.Line)
			if m == nil {
				continue
			}
			flags := m[2]
			if isLive(m[1]) && (strings.Contains(flags, "O_WRONLY") || strings.Contains(flags, "O_RDWR") || strings.Contains(flags, "O_TRUNC") || strings.Contains(flags, "O_APPEND")) {
				return h.V("live-file-never-written-in-place", "the live file was opened for writing: %s", c.Line)
			}
		case "truncate":
			if strings.Contains(c.Line, `"`+live+`"`) {
				return h.V("live-file-never-written-in-place", "the live file was truncated: %s", c.Line)
			}
		}
	}
	return nil
}

func stdoutField(out, tag string) (string, bool) {
	for _, l := range strings.Split(out, "\n") {
		if strings.HasPrefix(l, tag+" ") {
			return strings.TrimPrefix(l, tag+" "), true
		}
	}
	return "", false
}

func sortedKeys(m map[string]int) []string {
	var ks []string
	for k := range m {
		ks = append(ks, k)
	}
	sort.Strings(ks)
	return ks
}

func TestReplay(t *testing.T) { h.Replay(t, "C04", "C05", "C13") }
