package clip

import (
	"context"
	"errors"
	"fmt"
	"io"
	"os"
	"path/filepath"
	"runtime"
	"strings"
	"sync"
	"sync/atomic"
	"testing"
	"time"
	"verifharness/model"

	"github.com/tailscale/setec/client/setec"
	"pgregory.net/rapid"
	"verifharness/fake"
	"verifharness/h"
)

// ---- C15: updaters never miss the latest value ---------------------------------

type cval struct {
	from   string
	closed atomic.Int32
	// closeErr: closing this value reports an error (a connection whose peer has gone). That is the
	// value's business: it is replaced and closed once all the same.
	closeErr bool
}

func (c *cval) Close() error {
	c.closed.Add(1)
	if c.closeErr {
		return errors.New("close: the peer has already gone")
	}
	return nil
}
func (c *cval) tag()         {}

// The updater's type parameter is either the concrete pointer type or an INTERFACE type whose
// values happen to be closers (the zero value of an interface type is nil and closes nothing).
type closerIface interface {
	io.Closer
	tag()
}

type updHandle interface {
	Get() *cval
	Err() error
}

type ptrUpd struct{ u *setec.Updater[*cval] }

func (p ptrUpd) Get() *cval { return p.u.Get() }
func (p ptrUpd) Err() error { return p.u.Err() }

type ifaceUpd struct {
	u *setec.Updater[closerIface]
}

func (p ifaceUpd) Get() *cval {
	v, _ := p.u.Get().(*cval)
	return v
}
func (p ifaceUpd) Err() error { return p.u.Err() }

type UOp struct {
	Kind string `json:"kind"` // install | get | new | new-during-install | pollnop | other | err
	U    int    `json:"u"`    // which updater (mod count)
	Fail bool   `json:"fail"` // install: the builder rejects this version's bytes
	Back bool   `json:"back"` // install: the service re-activates the previous version instead of a new one
	Both bool   `json:"both"` // install: the unrelated secret changes in the same poll
}

type UpdaterCase struct {
	Ops       []UOp `json:"ops"`
	FailWrite []int `json:"fail_write"` // cache write calls (1-based) that fail; empty = no cache configured
	Iface     bool  `json:"iface"`      // the updaters are Updater[<interface type>] rather than Updater[*T]
	// the context given to NewUpdater (it governs the initial lookup, nothing else) ends as soon as
	// NewUpdater has returned - a start-up helper with a timeout and a deferred cancel
	CtxEnds bool `json:"ctx_ends,omitempty"`
	// OtherLast: the second declared secret (which has updaters of its own, ops "newo" / "geto") sorts
	// after the watched one instead of before it
	OtherLast bool `json:"other_last,omitempty"`
}

// an updater on the second declared secret
type oupd struct {
	u       *setec.Updater[string]
	builds  int
	pending bool
}

type upd struct {
	u       updHandle
	cur     *cval
	pending bool
	wantErr bool
	built   []*cval
	builds  int
	errOpen bool // the last Get replaced a value whose Close reported an error: what Err says about that is left open
}

// an install or a Get that never returns (a notification that blocks while the store's lock is held,
// say) cannot be waited for: see h.StuckWatch
var c15stuck = h.NewStuckWatch("C15", "updater", "no-update-lost-however-many-arrive", "an updater history (polls that install, Updater.Get, NewUpdater)", 60*time.Second)

func runC15(t *testing.T, c UpdaterCase) (*h.Violation, h.Info) {
	c15stuck.Begin(c)
	c15stuck.Enter(0)
	defer c15stuck.Leave(0)
	var info h.Info
	svc := fake.NewSvc()
	svc.Set("w", 1, c15Value(1))
	other := "o"
	if c.OtherLast {
		other = "z"
	}
	svc.Set(other, 1, valueOf(other, 1))
	clock := fake.NewClock(1_700_000_000)
	cfg := setec.StoreConfig{Client: svc, Secrets: []string{"w", other}, PollInterval: -1, Logf: nolog, TimeNow: clock.Now}
	var oups []*oupd
	otherChanged := func() {
		for _, ou := range oups {
			ou.pending = true
		}
	}
	if len(c.FailWrite) > 0 {
		cache := fake.NewCache(nil)
		for _, k := range c.FailWrite {
			cache.FailWrite[k] = true
		}
		cfg.Cache = cache
		info.Class("cache-with-failing-writes")
	}
	st, err := setec.NewStore(context.Background(), cfg)
	if err != nil {
		return h.V("harness", "NewStore: %v", err), info
	}
	defer st.Close()
	if c.Iface {
		info.Class("updater-of-an-interface-type")
	}
	// with a failing cache Refresh may report the cache error although the values were installed
	refresh := func() error {
		err := st.Refresh(context.Background())
		if err != nil && len(c.FailWrite) > 0 && strings.Contains(err.Error(), "cache") {
			return nil
		}
		return err
	}
	fails := map[string]bool{}
	var ups []*upd
	installed := string(c15Value(1))
	ver := uint32(1)
	activeVer := ver
	mk := func(step int, installDuring bool) *h.Violation {
		u := &upd{}
		builder := func(b []byte) (*cval, error) {
			u.builds++
			if installDuring {
				// a poll installs a newer version while NewUpdater is inside its first build
				installDuring = false
				ver++
				activeVer = ver
				nb := string(c15Value(ver))
				svc.Set("w", ver, []byte(nb))
				if err := refresh(); err == nil {
					installed = nb
					for _, o := range ups {
						o.pending = true
					}
					u.pending = true
				}
			}
			if fails[string(b)] {
				return nil, errors.New("builder rejects this value")
			}
			v := &cval{from: string(b), closeErr: (len(u.built)+len(b))%3 == 1}
			u.built = append(u.built, v)
			return v, nil
		}
		var uu updHandle
		var err error
		uctx, ucancel := context.WithCancel(context.Background())
		if c.CtxEnds {
			defer ucancel() // (ends when mk returns, i.e. right after NewUpdater)
		}
		_ = ucancel
		if c.Iface {
			var x *setec.Updater[closerIface]
			x, err = setec.NewUpdater(uctx, st, "w", func(b []byte) (closerIface, error) {
				v, err := builder(b)
				if err != nil {
					return nil, err
				}
				return v, nil
			})
			uu = ifaceUpd{x}
		} else {
			var x *setec.Updater[*cval]
			x, err = setec.NewUpdater(uctx, st, "w", builder)
			uu = ptrUpd{x}
		}
		if fails[installed] {
			if err == nil {
				return h.V("initial-build-failure-reported", "step %d: NewUpdater succeeded although the builder rejects the current value", step)
			}
			return nil
		}
		if err != nil {
			return h.V("harness", "step %d: NewUpdater: %v", step, err)
		}
		u.u, u.cur = uu, u.built[len(u.built)-1]
		if u.cur.from != installed && !u.pending {
			return h.V("get-returns-newest-installed", "step %d: new updater starts from %q, installed is %q", step, u.cur.from, installed)
		}
		ups = append(ups, u)
		return nil
	}
	if v := mk(-1, false); v != nil {
		return v, info
	}
	sinceGet := map[*upd]int{}
	for i, o := range c.Ops {
		switch o.Kind {
		case "install":
			if o.Back && activeVer >= 2 {
				activeVer-- // an activation backwards: a lower version number, its old bytes
				info.Class("install-of-a-lower-version")
			} else {
				ver++
				activeVer = ver
			}
			b := string(c15Value(activeVer))
			if o.Fail && !o.Back {
				fails[b] = true
			}
			svc.Set("w", activeVer, []byte(b))
			if o.Both {
				ov, _, _ := svc.Active(other)
				svc.Set(other, ov+1, valueOf(other, ov+1))
				otherChanged()
				info.Class("two-secrets-change-in-one-poll")
			}
			if err := refresh(); err != nil {
				return h.V("harness", "Refresh: %v", err), info
			}
			installed = b
			for _, u := range ups {
				u.pending = true
				sinceGet[u]++
				if sinceGet[u] >= 2 {
					info.Class(">=2-installs-between-gets")
					info.NonTrivial = true
				}
			}
		case "idle":
			// nothing happens for a long time (more than a day on the store's clock): no install, no rebuild
			clock.Advance(25*3600 + 7)
			info.Class("a-day-of-idleness")
		case "pollnop":
			if err := refresh(); err != nil {
				return h.V("harness", "Refresh: %v", err), info
			}
		case "other":
			v, _, _ := svc.Active(other)
			svc.Set(other, v+1, valueOf(other, v+1))
			otherChanged()
			if err := refresh(); err != nil {
				return h.V("harness", "Refresh: %v", err), info
			}
		case "newo":
			// an updater on the OTHER declared secret: the two secrets' updaters have nothing to do with each other
			ou := &oupd{}
			u, err := setec.NewUpdater(context.Background(), st, other, func(b []byte) (string, error) { ou.builds++; return string(b), nil })
			if err != nil {
				return h.V("harness", "step %d: NewUpdater(%q): %v", i, other, err), info
			}
			ou.u = u
			oups = append(oups, ou)
			info.Class("updaters-on-two-declared-secrets")
		case "geto":
			if len(oups) == 0 {
				continue
			}
			ou := oups[o.U%len(oups)]
			ov, _, _ := svc.Active(other)
			b0 := ou.builds
			got := ou.u.Get()
			if got != string(valueOf(other, ov)) {
				return h.V("get-returns-newest-installed", "step %d: the updater on the other declared secret %q returned a value built from %q, newest installed is %q", i, other, got, valueOf(other, ov)), info
			}
			if ou.pending && ou.builds != b0+1 || !ou.pending && ou.builds != b0 {
				return h.V("rebuilt-only-after-an-install", "step %d: the updater on the other declared secret %q ran its builder %d times in one Get (an install of THAT secret since its previous Get: %v)", i, other, ou.builds-b0, ou.pending), info
			}
			ou.pending = false
		case "new":
			if v := mk(i, false); v != nil {
				return v, info
			}
			info.Class("updater-created-mid-history")
		case "new-beside-failing-new":
			// NewUpdater A's initial build fails - and while A is still inside that builder, updater B
			// is created on the same secret (another goroutine in real life). B is a perfectly good
			// updater and must follow every later install.
			if fails[installed] {
				continue
			}
			var inner *h.Violation
			made := false
			_, err := setec.NewUpdater(context.Background(), st, "w", func(b []byte) (*cval, error) {
				if !made {
					made = true
					inner = mk(i, false)
				}
				return nil, errors.New("this updater's initial build fails")
			})
			if inner != nil {
				return inner, info
			}
			if err == nil {
				return h.V("initial-build-failure-reported", "step %d: NewUpdater succeeded although its builder rejected the current value", i), info
			}
			info.Class("updater-created-while-a-sibling's-initial-build-fails")
		case "new-during-install":
			if fails[installed] {
				continue
			}
			if v := mk(i, true); v != nil {
				return v, info
			}
			info.Class("updater-created-while-install-in-flight")
			info.NonTrivial = true
		case "err":
			if len(ups) == 0 {
				continue
			}
			u := ups[o.U%len(ups)]
			if u.errOpen && !u.wantErr {
				continue
			}
			if (u.u.Err() != nil) != u.wantErr {
				return h.V("err-reports-build-failure", "step %d: Err() = %v, want failure=%v", i, u.u.Err(), u.wantErr), info
			}
		case "get":
			if len(ups) == 0 {
				continue
			}
			u := ups[o.U%len(ups)]
			b0 := u.builds
			got := u.u.Get()
			sinceGet[u] = 0
			if u.pending {
				u.pending = false
				if u.builds != b0+1 {
					return h.V("get-returns-newest-installed", "step %d: an install happened since the previous Get but the builder ran %d times", i, u.builds-b0), info
				}
				if fails[installed] {
					if u.wantErr {
						info.Class("consecutive-failed-builds")
					}
					u.wantErr, u.errOpen = true, false
					if got != u.cur {
						return h.V("failed-build-keeps-previous-value", "step %d: the builder failed but Get returned a different value (%q, previous %q)", i, got.from, u.cur.from), info
					}
					if u.u.Err() == nil {
						return h.V("err-reports-build-failure", "step %d: Err() is nil after a failed build", i), info
					}
					if u.cur.closed.Load() != 0 {
						return h.V("current-value-never-closed", "step %d: the value still being returned was closed", i), info
					}
				} else {
					if u.wantErr {
						info.Class("failed-build-then-successful")
						info.NonTrivial = true
					}
					u.wantErr = false
					if got == nil || got.from != installed {
						return h.V("get-returns-newest-installed", "step %d: Get returned a value built from %q, newest installed is %q", i, fromOf(got), installed), info
					}
					u.errOpen = u.cur.closeErr
					if u.cur.closeErr {
						info.Class("closing-the-replaced-value-reported-an-error")
					} else if u.u.Err() != nil {
						// (when closing the replaced value failed, whether Err mentions it is left open)
						return h.V("err-reports-build-failure", "step %d: Err() = %v after a successful build", i, u.u.Err()), info
					}
					if n := u.cur.closed.Load(); n != 1 {
						return h.V("replaced-closer-closed-exactly-once", "step %d: the replaced value was closed %d times", i, n), info
					}
					u.cur = got
				}
			} else {
				if u.builds != b0 {
					return h.V("rebuilt-only-after-an-install", "step %d: no install since the previous Get, yet the builder ran", i), info
				}
				if got != u.cur {
					return h.V("rebuilt-only-after-an-install", "step %d: value changed without an install", i), info
				}
			}
			if got.closed.Load() != 0 {
				return h.V("current-value-never-closed", "step %d: Get returned a closed value", i), info
			}
			for _, bv := range u.built {
				if bv != u.cur && bv.closed.Load() != 1 {
					return h.V("replaced-closer-closed-exactly-once", "step %d: a replaced value (from %q) was closed %d times", i, bv.from, bv.closed.Load()), info
				}
			}
		}
	}
	if len(ups) >= 2 {
		info.Class("several-updaters")
	}
	return nil, info
}

// c15Value gives the bytes of version ver of the watched secret in the sequential campaign: version 3
// is the EMPTY byte string - a legal value like any other (only one version, so that bytes still
// identify versions).
func c15Value(ver uint32) []byte {
	if ver == 3 {
		return []byte{}
	}
	return valueOf("w", ver)
}

func fromOf(c *cval) string {
	if c == nil {
		return "<nil>"
	}
	return c.from
}

var c15 = &h.Campaign[UpdaterCase]{
	Prop: "C15", Sub: "updater",
	Rule:  "rapid: sequences (1-40) over one watched secret: install a new version (service change + Refresh; the builder may be told to reject that version), Get / Err on any updater, create another updater mid-history, a poll that installs nothing, a poll that updates an unrelated secret; values implement io.Closer with a close counter, the updater being Updater[*T] or, one case in three, Updater[<interface type>]; model per updater = pending-install flag + current value; updaters on the second declared secret as well (it sorts before or after the watched one), each judged against that secret's installs only; non-trivial = >= 2 installs between two Gets of an updater, or a failed build followed by a successful one; distinct by sequence",
	Quick: 6000, Thorough: 2000000,
	Gen: func(rt *rapid.T) UpdaterCase {
		return UpdaterCase{Ops: rapid.SliceOfN(rapid.Custom(func(rt *rapid.T) UOp {
			o := UOp{Kind: rapid.SampledFrom([]string{"install", "install", "install", "get", "get", "get", "new", "new-during-install", "new-beside-failing-new", "pollnop", "idle", "other", "err", "newo", "geto"}).Draw(rt, "kind"), U: rapid.IntRange(0, 3).Draw(rt, "u")}
			if o.Kind == "install" {
				o.Fail = rapid.IntRange(0, 3).Draw(rt, "fail") == 0
				o.Back = rapid.IntRange(0, 4).Draw(rt, "back") == 0
				o.Both = rapid.IntRange(0, 3).Draw(rt, "both") == 0
			}
			return o
		}), h.LenBias(rt, 1, 40), 40).Draw(rt, "ops"), FailWrite: rapid.SampledFrom([][]int{nil, nil, {2}, {2, 3}, {3, 5, 6}, {1, 2, 3, 4, 5, 6, 7, 8, 9}}).Draw(rt, "failwrite"), Iface: rapid.IntRange(0, 2).Draw(rt, "iface") == 0, CtxEnds: rapid.IntRange(0, 2).Draw(rt, "ctxends") == 0, OtherLast: rapid.Bool().Draw(rt, "otherlast")}
	},
	Run: runC15,
}

// ---- concurrent Get callers while installs run (race detector) ----------------

type ConcUpdaterCase struct {
	Getters  int `json:"getters"`
	Installs int `json:"installs"`
	Updaters int `json:"updaters"`
}

func runC15Conc(t *testing.T, c ConcUpdaterCase) (*h.Violation, h.Info) {
	var info h.Info
	svc := fake.NewSvc()
	svc.Set("w", 1, valueOf("w", 1))
	st, err := setec.NewStore(context.Background(), setec.StoreConfig{Client: svc, Secrets: []string{"w"}, PollInterval: -1, Logf: nolog})
	if err != nil {
		return h.V("harness", "NewStore: %v", err), info
	}
	defer st.Close()
	var mu sync.Mutex
	var all []*cval
	var us []*setec.Updater[*cval]
	for i := 0; i < c.Updaters; i++ {
		u, err := setec.NewUpdater(context.Background(), st, "w", func(b []byte) (*cval, error) {
			v := &cval{from: string(b)}
			// a builder that takes a little while, so that installs and other Get callers can overlap it
			if n := slow.Add(1); n%3 != 0 {
				for y := 0; y < int(n%7)*3; y++ {
					runtime.Gosched()
				}
				if n%5 == 0 {
					time.Sleep(50 * time.Microsecond)
				}
			}
			mu.Lock()
			all = append(all, v)
			mu.Unlock()
			return v, nil
		})
		if err != nil {
			return h.V("harness", "NewUpdater: %v", err), info
		}
		us = append(us, u)
	}
	var wg sync.WaitGroup
	stop := make(chan struct{})
	var bad atomic.Value
	var reads atomic.Int64
	var acked atomic.Int64 // highest version whose installing Refresh has returned
	acked.Store(1)
	for g := 0; g < c.Getters; g++ {
		wg.Add(1)
		go func() {
			defer wg.Done()
			lastVer := make([]int, len(us))
			for {
				select {
				case <-stop:
					return
				default:
				}
				for ui, u := range us {
					min := int(acked.Load())
					v := u.Get()
					reads.Add(1)
					var n int
					if _, err := fmt.Sscanf(v.from, "w#%d", &n); err != nil {
						bad.Store(fmt.Sprintf("Get returned a value built from %q, which was never installed", v.from))
						return
					}
					if n < min {
						// this Get began after the install of version min had completed - whoever else is rebuilding
						bad.Store(fmt.Sprintf("a Get that began after version %d had been installed returned a value built from version %d", min, n))
						return
					}
					if n < lastVer[ui] {
						bad.Store(fmt.Sprintf("one reader saw a value from version %d after one from version %d", n, lastVer[ui]))
						return
					}
					lastVer[ui] = n
				}
			}
		}()
	}
	for v := uint32(2); v < uint32(2+c.Installs); v++ {
		svc.Set("w", v, valueOf("w", v))
		if err := st.Refresh(context.Background()); err != nil {
			close(stop)
			wg.Wait()
			return h.V("harness", "Refresh: %v", err), info
		}
		acked.Store(int64(v))
	}
	close(stop)
	wg.Wait()
	if b := bad.Load(); b != nil {
		return h.V("get-returns-newest-installed", "%s", b), info
	}
	last := string(valueOf("w", uint32(1+c.Installs)))
	for ui, u := range us {
		if got := u.Get(); got.from != last {
			return h.V("get-returns-newest-installed", "after all installs, updater %d returns a value from %q, newest installed is %q", ui, got.from, last), info
		}
	}
	cur := map[*cval]bool{}
	for _, u := range us {
		cur[u.Get()] = true
	}
	mu.Lock()
	defer mu.Unlock()
	for _, v := range all {
		n := v.closed.Load()
		if cur[v] && n != 0 {
			return h.V("current-value-never-closed", "a current value (from %q) was closed %d times", v.from, n), info
		}
		if !cur[v] && n != 1 {
			return h.V("replaced-closer-closed-exactly-once", "a replaced value (from %q) was closed %d times", v.from, n), info
		}
	}
	info.NonTrivial = reads.Load() > int64(c.Installs) && len(all) > c.Updaters
	info.Class(fmt.Sprintf("getters-%d", c.Getters))
	return nil, info
}

var c15conc = &h.Campaign[ConcUpdaterCase]{
	Prop: "C15", Sub: "concurrent",
	Rule:  "rapid: 2-6 goroutines spinning on Get of 1-3 updaters while 3-40 installs happen, under the race detector; per reader the versions seen never go backwards, a Get that begins after the Refresh installing version v has returned yields a value built from version >= v, the final Get of every updater is built from the last install, every replaced value closed exactly once, no current value closed; non-trivial = rebuilds happened while readers ran; distinct by (getters, installs, updaters) - schedules are sampled",
	Quick: 400, Thorough: 60000,
	Gen: func(rt *rapid.T) ConcUpdaterCase {
		return ConcUpdaterCase{Getters: rapid.IntRange(2, 6).Draw(rt, "getters"), Installs: rapid.IntRange(3, 40).Draw(rt, "installs"), Updaters: rapid.IntRange(1, 3).Draw(rt, "updaters")}
	},
	Run: runC15Conc,
	Key: func(c ConcUpdaterCase) any {
		return fmt.Sprintf("%d/%d/%d/%d", c.Getters, c.Installs, c.Updaters, nonce.Add(1))
	},
}

var nonce, slow atomic.Int64

func init() { c15.Register(); c15conc.Register() }

func TestC15Updater(t *testing.T)        { c15.Check(t) }
func TestC15RaceConcurrent(t *testing.T) { c15conc.Check(t) }

// ---- C15 over the file-backed client ---------------------------------------------------------------
//
// A program that reads its secrets from a file (no service) still has a Store with a cache: after
// the file was replaced and the program restarted, the cache holds the old version, the first poll
// installs the file's - and an updater created in between follows, like any other.

type FileUpdCase struct {
	CacheVer int    `json:"cache_ver"`
	FileVer  int    `json:"file_ver"`
	Val      []byte `json:"val"`
	Updaters int    `json:"updaters"`
}

func runC15File(t *testing.T, c FileUpdCase) (*h.Violation, h.Info) {
	var info h.Info
	dir := h.Scratch(t)
	defer os.RemoveAll(dir)
	fileVal := append([]byte("file:"), c.Val...)
	cacheVal := append([]byte("cache:"), c.Val...)
	p := filepath.Join(dir, "secrets.json")
	os.WriteFile(p, model.EncodeCache(model.CacheDoc{"w": {Version: uint32(c.FileVer), Value: fileVal}}), 0o600)
	fc, err := setec.NewFileClient(p)
	if err != nil {
		return h.V("harness", "NewFileClient: %v", err), info
	}
	cache := fake.NewCache(model.EncodeCache(model.CacheDoc{"w": {Version: uint32(c.CacheVer), Value: cacheVal, LastAccess: 1700000000}}))
	st, err := setec.NewStore(context.Background(), setec.StoreConfig{Client: fc, Secrets: []string{"w"}, Cache: cache, PollInterval: -1, Logf: nolog})
	if err != nil {
		return h.V("harness", "NewStore: %v", err), info
	}
	defer st.Close()
	var ups []*setec.Updater[string]
	for i := 0; i < c.Updaters; i++ {
		u, err := setec.NewUpdater(context.Background(), st, "w", func(b []byte) (string, error) { return string(b), nil })
		if err != nil {
			return h.V("harness", "NewUpdater: %v", err), info
		}
		if got := u.Get(); got != string(cacheVal) {
			return h.V("get-returns-newest-installed", "a new updater over a store started from its cache yields %q, the cache supplied %q", got, cacheVal), info
		}
		ups = append(ups, u)
	}
	if err := st.Refresh(context.Background()); err != nil {
		return h.V("harness", "Refresh: %v", err), info
	}
	newest := string(st.Secret("w").Get())
	info.NonTrivial = newest != string(cacheVal)
	if info.NonTrivial {
		info.Class("the-poll-installed-the-files-version")
	}
	for i, u := range ups {
		if got := u.Get(); got != newest {
			return h.V("get-returns-newest-installed", "store over a file-backed client, cache had version %d, the file has %d: after the poll the store's handle yields %q, updater %d still yields %q", c.CacheVer, c.FileVer, newest, i, got), info
		}
	}
	return nil, info
}

var c15file = &h.Campaign[FileUpdCase]{
	Prop: "C15", Sub: "over-the-file-client",
	Rule:  "rapid: a store over setec.FileClient with a cache that holds another version (older, newer or the same) of the one declared secret than the file; 1-3 updaters are created before the first poll; after Refresh every updater yields a value built from the bytes the store's handle returns; non-trivial = the poll installed the file's version; distinct by scenario",
	Quick: 200, Thorough: 20000,
	Gen: func(rt *rapid.T) FileUpdCase {
		return FileUpdCase{CacheVer: rapid.IntRange(1, 4).Draw(rt, "cachever"), FileVer: rapid.IntRange(1, 4).Draw(rt, "filever"),
			Val: rapid.SliceOfN(rapid.Byte(), 1, 8).Draw(rt, "val"), Updaters: rapid.IntRange(1, 3).Draw(rt, "updaters")}
	},
	Run: runC15File,
}

func init() { c15file.Register() }

func TestC15OverTheFileClient(t *testing.T) { c15file.Check(t) }
