package clip

import (
	"bytes"
	"context"
	"fmt"
	"os"
	"path/filepath"
	"reflect"
	"sort"
	"strings"
	"testing"
	"time"

	"github.com/tailscale/setec/client/setec"
	"pgregory.net/rapid"
	"verifharness/fake"
	"verifharness/h"
	"verifharness/model"
)

// A store history is a sequence of client-side events against one Store that
// talks to a scripted service, with an injected clock and a recording cache.
// One runner serves C11 (freshness after polls) and C19 (expiry); each
// campaign asserts only the clauses its property owns.  Knowledge is observed
// through the cache documents the store writes and through the service's
// request log; Secret(name) is called only where the scenario itself obtains a
// handle, because obtaining a handle pins the secret against expiry.

type SOp struct {
	Kind string `json:"kind"` // read handle lookup watch poll advance restart set
	Name string `json:"name,omitempty"`
	N    int    `json:"n,omitempty"` // advance: seconds; set: 0 = new version, k>0 = activate existing version ((k-1) mod count)+1
	// poll only:
	Fail      []string `json:"fail,omitempty"`       // names whose request fails in this poll
	FailKind  string   `json:"fail_kind,omitempty"`  // how: err (default) | notfound | denied
	MidAfter  int      `json:"mid_after,omitempty"`  // after this many requests of the poll (1-based; 0 = none) ...
	MidName   string   `json:"mid_name,omitempty"`   // ... the service activates a new version of this name
	MidHandle string   `json:"mid_handle,omitempty"` // ... and/or the program obtains a handle for this name (and reads it)
	Redeclare []string `json:"redeclare,omitempty"` // restart only: declared set of the new store (nil = same)
}

type CacheSeed struct {
	Name string `json:"name"`
	Last int64  `json:"last"` // seconds relative to the start of the clock (may be <= 0 or in the future); 0x7fffffff = stamp 0
}

type StoreCase struct {
	Age      int         `json:"age"` // expiry age in seconds, 0 = none
	AgeMs    int         `json:"age_ms,omitempty"`    // ... plus this many milliseconds (an age need not be a whole number of seconds)
	FracMs   int         `json:"frac_ms,omitempty"`   // the clock reads this many milliseconds past the whole second
	// the store runs its own poller (never ticked; polls are explicit Refresh calls), so that Close
	// flushes the cache; histories may then make single cache writes fail (op "failwrite")
	Poller bool `json:"poller,omitempty"`
	// Wire: the store reaches the service through the real setec.Client (HTTP encoding, status handling)
	Wire bool `json:"wire,omitempty"`
	// FileCache: every cache document goes through a real setec.FileCache; the cache "holds" what is read back
	FileCache bool `json:"file_cache,omitempty"`
	// NoLookup: the store is configured with AllowLookup false (lookups of unknown names are refused;
	// undeclared secrets the start-up cache supplies are known all the same)
	NoLookup bool `json:"no_lookup,omitempty"`
	// StartFail: at every (re)start the first request for this name fails once (NewStore retries)
	StartFail string `json:"start_fail,omitempty"`
	Declared []string    `json:"declared"`
	Seeds    []CacheSeed `json:"seeds"` // undeclared entries of the start-up cache
	Ops      []SOp       `json:"ops"`
}

type mname struct {
	declared bool
	last     int64
	handle   bool
	ver      uint32
	// a poll ran while this name was droppable and no cache document was written afterwards: the
	// store may or may not have dropped it (either is allowed); the next look at it will tell
	maybeGone bool
}

const clockStart = int64(1_700_000_000)

// uOdd is the third undeclared secret of the store histories: a legal name with characters that JSON,
// HTML, fmt and paths each treat specially (the cache document and the log lines carry it)
const uOdd = `x<&>é 'q'/%s`

func valueOf(name string, ver uint32) []byte { return []byte(fmt.Sprintf("%s#%d", name, ver)) }

// histValue gives the bytes of (name, version) in store histories. Versions v and v+3 of a secret
// have IDENTICAL bytes (an operator re-puts an old value later): freshness is a matter of version
// numbers, not of bytes.
// Version 3 (and so 6, 9, ...) of every secret is the EMPTY byte string, which the service
// accepts and serves like any other value.
func histValue(name string, ver uint32) []byte {
	if ver >= 4 {
		ver = (ver-1)%3 + 1
	}
	if ver == 3 {
		return []byte{}
	}
	return []byte(fmt.Sprintf("%s#%d", name, ver))
}

var allStoreNames = []string{"d1", "d2", "u1", "u2", uOdd}

type storeRun struct {
	prop    string // "C11" or "C19"
	c       StoreCase
	svc     *fake.Svc
	cache   *fake.Cache
	clock   *fake.Clock
	st      *setec.Store
	model   map[string]*mname
	handles map[string]setec.Secret
	nver    map[string]uint32 // number of versions the service has for a name
	info    *h.Info
	foreign bool
	declared []string
}

// owner maps a clause to the property that states it.
func clauseOwner(clause string) string {
	switch clause {
	case "fresh-after-successful-poll", "cache-agrees-after-poll", "failed-poll-keeps-old-values", "read-yields-served-value", "poll-fails-only-on-service-failure":
		return "C11"
	case "dropped-only-if-stale-unreferenced-undeclared", "dropped-only-at-a-poll", "last-access-persisted", "read-refreshes-last-access", "known-after-restart":
		return "C19"
	}
	return "" // harness / shared
}

func (r *storeRun) viol(clause, format string, args ...any) *h.Violation {
	if o := clauseOwner(clause); o != "" && o != r.prop {
		r.foreign = true
		return nil
	}
	return h.V(clause, format, args...)
}

// secret is Store.Secret; with lookups disabled an unknown name makes Secret panic (documented), which
// is reported here like the nil that a lookup-enabled store returns.
func (r *storeRun) secret(name string) (hd setec.Secret) {
	if r.c.NoLookup {
		defer func() {
			if recover() != nil {
				hd = nil
			}
		}()
	}
	return r.st.Secret(name)
}

func (r *storeRun) mayExpire(m *mname) bool {
	now := r.clock.Unix()
	return !m.declared && r.c.Age > 0 && (now-m.last)*1000+int64(r.c.FracMs) > int64(r.c.Age)*1000+int64(r.c.AgeMs) && !m.handle
}

func (r *storeRun) expiryAge() time.Duration {
	if r.c.Age <= 0 {
		return 0
	}
	return time.Duration(r.c.Age)*time.Second + time.Duration(r.c.AgeMs)*time.Millisecond
}

func (r *storeRun) start(declared []string) *h.Violation {
	if r.c.StartFail != "" {
		for _, d := range declared {
			if d == r.c.StartFail && r.model[d] == nil {
				r.svc.SetScript(d, []fake.Beh{{Kind: "err"}})
				r.info.Class("a-declared-secret-fetched-at-the-second-attempt")
			}
		}
	}
	cfg := setec.StoreConfig{
		Client: storeClient(r.svc, r.c.Wire), Secrets: append([]string{}, declared...), AllowLookup: !r.c.NoLookup, Cache: r.cache,
		PollInterval: -1, ExpiryAge: r.expiryAge(), TimeNow: r.clock.Now, Logf: nolog,
	}
	if r.c.Poller {
		cfg.PollInterval, cfg.PollTicker = 0, newChanTicker()
	}
	st, err := setec.NewStore(context.Background(), cfg)
	if r.c.StartFail != "" {
		r.svc.SetScript(r.c.StartFail, nil)
	}
	if err != nil {
		return h.V("harness", "NewStore: %v", err)
	}
	r.st = st
	r.declared = declared
	r.handles = map[string]setec.Secret{}
	for _, m := range r.model {
		m.handle, m.declared = false, false
	}
	for _, d := range declared {
		if r.model[d] == nil {
			v, _, _ := r.svc.Active(d)
			r.model[d] = &mname{last: r.clock.Unix(), ver: v}
		}
		r.model[d].declared = true
	}
	return nil
}

func (r *storeRun) docCheck(step int, what string, atPoll bool, window map[string]map[uint32]bool) *h.Violation {
	data := r.cache.Data()
	doc, err := model.DecodeCacheStrict(data)
	if err != nil {
		return h.V("cache-document-well-formed", "step %d %s: cache document %q: %v", step, what, data, err)
	}
	names := make([]string, 0, len(r.model))
	for n := range r.model {
		names = append(names, n)
	}
	sort.Strings(names)
	for _, n := range names {
		m := r.model[n]
		may := r.mayExpire(m)
		e, in := doc[n]
		if !in && m.maybeGone {
			delete(r.model, n) // dropped at the earlier poll that left no document
			continue
		}
		if in {
			m.maybeGone = false
		}
		if !in {
			if !atPoll {
				if v := r.viol("dropped-only-at-a-poll", "step %d %s: %q vanished from the cache outside a poll", step, what, n); v != nil {
					return v
				}
			} else if !may {
				if v := r.viol("dropped-only-if-stale-unreferenced-undeclared", "step %d %s: %q dropped although declared=%v handle=%v lastAccess=%d now=%d age=%d", step, what, n, m.declared, m.handle, m.last, r.clock.Unix(), r.c.Age); v != nil {
					return v
				}
			} else {
				r.info.Class("expired")
			}
			delete(r.model, n)
			continue
		}
		if e.LastAccess != m.last {
			if v := r.viol("last-access-persisted", "step %d %s: cache stamps %q with lastAccess %d, last read was at %d", step, what, n, e.LastAccess, m.last); v != nil {
				return v
			}
			m.last = e.LastAccess
		}
		if !bytes.Equal(e.Value, histValue(n, e.Version)) {
			return r.viol("cache-agrees-after-poll", "step %d %s: cache holds %q v%d = %q, the service never served that", step, what, n, e.Version, e.Value)
		}
		if window != nil && !may {
			if !window[n][e.Version] {
				if v := r.viol("fresh-after-successful-poll", "step %d %s: after a successful poll %q is at version %d; versions active during the poll: %v (declared=%v handle=%v lastAccess=%d now=%d age=%d)", step, what, n, e.Version, keys(window[n]), m.declared, m.handle, m.last, r.clock.Unix(), r.c.Age); v != nil {
					return v
				}
			}
		}
		m.ver = e.Version
	}
	for n := range doc {
		if r.model[n] == nil {
			return h.V("cache-lists-only-known-secrets", "step %d %s: cache lists %q which the store should not know", step, what, n)
		}
	}
	return nil
}

func keys(m map[uint32]bool) []uint32 {
	var ks []uint32
	for k := range m {
		ks = append(ks, k)
	}
	sort.Slice(ks, func(i, j int) bool { return ks[i] < ks[j] })
	return ks
}

func (r *storeRun) run() *h.Violation {
	c := r.c
	r.svc = fake.NewSvc()
	r.clock = fake.NewClock(clockStart)
	r.clock.SetFrac(c.FracMs)
	r.nver = map[string]uint32{}
	for _, n := range allStoreNames {
		r.svc.Set(n, 1, histValue(n, 1))
		r.nver[n] = 1
	}
	r.model = map[string]*mname{}
	seed := model.CacheDoc{}
	for _, s := range c.Seeds {
		last := clockStart + s.Last
		if s.Last == 0x7fffffff {
			last = 0
		}
		seed[s.Name] = model.CacheEntry{Version: 1, Value: histValue(s.Name, 1), LastAccess: last}
		r.model[s.Name] = &mname{last: last, ver: 1}
	}
	var init []byte
	if len(seed) > 0 {
		init = model.EncodeCache(seed)
	}
	r.cache = fake.NewCache(init)
	if c.FileCache {
		dir, err := os.MkdirTemp(os.Getenv("VERIF_FAST_SCRATCH"), "storehist-")
		if err != nil {
			return h.V("harness", "MkdirTemp: %v", err)
		}
		defer os.RemoveAll(dir)
		fc, err := setec.NewFileCache(filepath.Join(dir, "cache", "secrets.json"))
		if err != nil {
			return h.V("harness", "NewFileCache: %v", err)
		}
		if len(init) > 0 {
			if err := fc.Write(init); err != nil {
				return h.V("harness", "FileCache.Write: %v", err)
			}
		}
		r.cache.Backing = fc
		r.info.Class("documents-go-through-a-real-file-cache")
	}
	if v := r.start(c.Declared); v != nil {
		return v
	}
	defer func() { r.st.Close() }()
	if r.cache.NumWrites() > 0 {
		if v := r.docCheck(-1, "start", false, nil); v != nil || r.foreign {
			return v
		}
	}
	for i, o := range c.Ops {
		if r.foreign {
			return nil
		}
		what := fmt.Sprintf("%+v", o)
		switch o.Kind {
		case "read":
			m := r.model[o.Name]
			if m == nil {
				continue
			}
			hd := r.handles[o.Name]
			if hd == nil {
				hd = r.secret(o.Name)
				if hd == nil && m.maybeGone {
					delete(r.model, o.Name) // it was dropped at that poll, as it might be
					r.info.Class("drop-learned-without-a-cache-document")
					continue
				}
				m.maybeGone = false
				if hd == nil {
					return r.viol("known-after-restart", "step %d: Secret(%q) is nil although the cache lists it", i, o.Name)
				}
				r.handles[o.Name] = hd
				m.handle = true
			}
			got := hd.Get()
			m.last = r.clock.Unix()
			if !bytes.Equal(got, histValue(o.Name, m.ver)) {
				if v := r.viol("read-yields-served-value", "step %d: handle of %q yields %q, want version %d = %q", i, o.Name, got, m.ver, histValue(o.Name, m.ver)); v != nil {
					return v
				}
			}
			r.info.Class("read")
		case "handle":
			if m := r.model[o.Name]; m != nil && r.handles[o.Name] == nil {
				hd := r.secret(o.Name)
				if hd == nil && m.maybeGone {
					delete(r.model, o.Name)
					r.info.Class("drop-learned-without-a-cache-document")
					continue
				}
				m.maybeGone = false
				if hd == nil {
					return r.viol("known-after-restart", "step %d: Secret(%q) is nil although the cache lists it", i, o.Name)
				}
				r.handles[o.Name] = hd
				m.handle = true
			}
		case "apply":
			// the program fills a struct field from the secret (Fields.Apply): a read like any other.
			// Whether that also pins the secret like a handle is not said; the model does not assume it.
			typ := reflect.StructOf([]reflect.StructField{{Name: "V", Type: reflect.TypeOf([]byte(nil)), Tag: reflect.StructTag(fmt.Sprintf(`setec:"%s"`, o.Name))}})
			tgt := reflect.New(typ)
			fs, err := setec.ParseFields(tgt.Interface(), "")
			if err != nil {
				return h.V("harness", "ParseFields: %v", err)
			}
			w0 := r.cache.NumWrites()
			lq0 := r.svc.LogLen()
			err = fs.Apply(context.Background(), r.st)
			asked := r.svc.LogLen() > lq0
			m := r.model[o.Name]
			if err != nil {
				if r.c.NoLookup && (m == nil || m.maybeGone) {
					continue
				}
				return h.V("harness", "step %d Apply %q: %v", i, o.Name, err)
			}
			if m != nil && m.maybeGone {
				if asked {
					delete(r.model, o.Name)
					m = nil
				} else {
					m.maybeGone = false
				}
			}
			if m == nil {
				v, _, _ := r.svc.Active(o.Name)
				m = &mname{ver: v}
				r.model[o.Name] = m
			}
			m.last = r.clock.Unix()
			if got := tgt.Elem().Field(0).Bytes(); !bytes.Equal(got, histValue(o.Name, m.ver)) {
				if v := r.viol("read-yields-served-value", "step %d: Apply filled the field for %q with %q, want version %d = %q", i, o.Name, got, m.ver, histValue(o.Name, m.ver)); v != nil {
					return v
				}
			}
			r.info.Class("read-through-fields-apply")
			if r.cache.NumWrites() > w0 {
				// a lookup's flush happens before the field is filled (the read)
				save := m.last
				if doc, err := model.DecodeCacheStrict(r.cache.Data()); err == nil {
					if e, ok := doc[o.Name]; ok {
						m.last = e.LastAccess
					}
				}
				if v := r.docCheck(i, what, false, nil); v != nil {
					return v
				}
				m.last = save
			}
		case "failwrite":
			// the next write to the cache device fails (once)
			if r.c.Poller {
				r.cache.FailWrite[r.cache.NumWriteCalls()+1] = true
				r.info.Class("a-cache-write-fails")
			}
		case "lookup":
			w0 := r.cache.NumWrites()
			wc0 := r.cache.NumWriteCalls()
			lq0 := r.svc.LogLen()
			hd, err := r.st.LookupSecret(context.Background(), o.Name)
			if r.c.NoLookup && err != nil {
				// refused: fine if the store does not know the name (C16 judges the rest)
				if m := r.model[o.Name]; m == nil || m.maybeGone {
					continue
				}
				return r.viol("known-after-restart", "step %d: LookupSecret(%q) fails (%v) although the store knows the secret", i, o.Name, err)
			}
			if err != nil || hd == nil {
				return h.V("harness", "step %d lookup %q: %v", i, o.Name, err)
			}
			if m := r.model[o.Name]; m != nil && m.maybeGone {
				if r.svc.LogLen() > lq0 {
					delete(r.model, o.Name) // the store asked the service: it had dropped the name at that poll
					r.info.Class("drop-learned-without-a-cache-document")
				} else {
					m.maybeGone = false
				}
			}
			if r.model[o.Name] == nil {
				v, _, _ := r.svc.Active(o.Name)
				r.model[o.Name] = &mname{last: r.clock.Unix(), ver: v}
				r.info.Class("lookup-new")
				if r.cache.NumWriteCalls() == wc0 && r.prop == "C19" { // (C11 goes on: its own clause is judged at the next successful poll)
					if v := r.viol("last-access-persisted", "step %d: lookup of new secret %q did not rewrite the cache", i, o.Name); v != nil {
						return v
					}
				}
			}
			r.model[o.Name].handle = true
			r.handles[o.Name] = hd
			if r.cache.NumWrites() > w0 {
				if v := r.docCheck(i, what, false, nil); v != nil {
					return v
				}
			}
		case "watch":
			w0 := r.cache.NumWrites()
			lq0 := r.svc.LogLen()
			_, err := setec.NewUpdater(context.Background(), r.st, o.Name, func(b []byte) (string, error) { return string(b), nil })
			if r.c.NoLookup && err != nil {
				if m := r.model[o.Name]; m == nil || m.maybeGone {
					continue
				}
				return r.viol("known-after-restart", "step %d: NewUpdater(%q) fails (%v) although the store knows the secret", i, o.Name, err)
			}
			if err != nil {
				return h.V("harness", "step %d NewUpdater %q: %v", i, o.Name, err)
			}
			if m := r.model[o.Name]; m != nil && m.maybeGone {
				if r.svc.LogLen() > lq0 {
					delete(r.model, o.Name)
					r.info.Class("drop-learned-without-a-cache-document")
				} else {
					m.maybeGone = false
				}
			}
			if r.model[o.Name] == nil {
				v, _, _ := r.svc.Active(o.Name)
				r.model[o.Name] = &mname{ver: v}
			}
			m := r.model[o.Name]
			m.handle = true
			m.last = r.clock.Unix() // NewUpdater reads the value once
			// no separate handle is taken: the watcher alone must keep the secret alive
			r.info.Class("watcher-without-a-handle")
			if r.cache.NumWrites() > w0 {
				// the lookup's flush happens before the updater's first read
				save := m.last
				doc, err := model.DecodeCacheStrict(r.cache.Data())
				if err == nil {
					if e, ok := doc[o.Name]; ok {
						m.last = e.LastAccess
					}
				}
				if v := r.docCheck(i, what, false, nil); v != nil {
					return v
				}
				m.last = save
			}
		case "set":
			n := r.nver[o.Name]
			var v uint32
			if o.N == 0 {
				n++
				r.nver[o.Name] = n
				v = n
			} else {
				v = uint32((o.N-1)%int(n)) + 1
				r.info.Class("activate-existing-version")
			}
			r.svc.Set(o.Name, v, histValue(o.Name, v))
		case "advance":
			r.clock.Advance(int64(o.N))
		case "poll":
			window := map[string]map[uint32]bool{}
			for _, n := range allStoreNames {
				v, _, _ := r.svc.Active(n)
				window[n] = map[uint32]bool{v: true}
			}
			fk := o.FailKind
			if fk == "" {
				fk = "err"
			}
			for _, f := range o.Fail {
				r.svc.SetScript(f, []fake.Beh{{Kind: fk}})
			}
			r.svc.ResetCount()
			pinnedMid := ""
			var midViolation *h.Violation
			if o.MidAfter > 0 && (o.MidName != "" || o.MidHandle != "") {
				r.svc.OnRequest = func(n int, _ string) {
					if n != o.MidAfter {
						return
					}
					if o.MidName != "" {
						nv := r.nver[o.MidName] + 1
						r.nver[o.MidName] = nv
						r.svc.Set(o.MidName, nv, histValue(o.MidName, nv))
						window[o.MidName][nv] = true
						r.info.Class("change-during-poll")
					}
					if m := r.model[o.MidHandle]; m != nil && r.handles[o.MidHandle] == nil {
						// the program takes a handle while the poll is between its snapshot and its apply step
						// from another goroutine under a watchdog (a store that holds its lock across
						// the request would dead-lock here; that is C12's business, so just stop)
						ch := make(chan setec.Secret, 1)
						go func() { ch <- r.secret(o.MidHandle) }()
						var hd setec.Secret
						select {
						case hd = <-ch:
						case <-time.After(5 * time.Second):
							r.foreign = true
							return
						}
						if hd == nil && m.maybeGone {
							delete(r.model, o.MidHandle)
							return
						}
						m.maybeGone = false
						if hd == nil {
							midViolation = r.viol("known-after-restart", "step %d: Secret(%q) is nil during a poll although the store knows it", i, o.MidHandle)
							return
						}
						if r.mayExpire(m) {
							r.info.Class("handle-taken-for-stale-secret-during-poll")
						}
						r.handles[o.MidHandle] = hd
						m.handle = true
						got := hd.Get()
						m.last = r.clock.Unix()
						if !bytes.Equal(got, histValue(o.MidHandle, m.ver)) {
							midViolation = r.viol("read-yields-served-value", "step %d: handle of %q taken during a poll yields %q, want version %d", i, o.MidHandle, got, m.ver)
						}
						pinnedMid = o.MidHandle
					}
				}
			}
			l0, w0 := r.svc.LogLen(), r.cache.NumWrites()
			// classification before the poll
			for n, m := range r.model {
				if !m.declared && r.c.Age > 0 && (r.clock.Unix()-m.last)*1000+int64(r.c.FracMs) > int64(r.c.Age)*1000+int64(r.c.AgeMs) {
					if m.handle {
						r.info.Class("poll-covers-stale-but-pinned")
					}
					v, _, _ := r.svc.Active(n)
					if m.handle && v != m.ver {
						r.info.Class("poll-must-refresh-stale-but-pinned")
					}
				}
			}
			wcBefore := r.cache.NumWriteCalls()
			err := r.st.Refresh(context.Background())
			r.svc.OnRequest = nil
			if err == nil && r.cache.NumWriteCalls() > wcBefore && r.cache.NumWrites() == w0 {
				// The poll says it succeeded, yet the one cache write it attempted failed (whether a poll
				// reports that is not for C11/C19 to say): what it installed or dropped cannot be seen
				// anywhere, so the history is not judged any further.
				r.info.Class("poll-reported-success-although-its-cache-write-failed")
				r.foreign = true
				return nil
			}
			if midViolation != nil {
				return midViolation
			}
			if pinnedMid != "" {
				// "a name first pinned by a handle while a poll is already in flight is covered from the next poll on"
				for v := uint32(1); v <= r.nver[pinnedMid]; v++ {
					window[pinnedMid][v] = true
				}
				// ... but it must survive this poll, and its handle must keep working
				if v := h.Safely(func() *h.Violation { r.handles[pinnedMid].Get(); return nil }); v != nil {
					if o := clauseOwner("dropped-only-if-stale-unreferenced-undeclared"); o == r.prop {
						return h.V("dropped-only-if-stale-unreferenced-undeclared", "step %d: the handle of %q, obtained while the poll was in flight, panics after the poll: %s", i, pinnedMid, v.Detail)
					}
					r.foreign = true
					return nil
				}
				r.model[pinnedMid].last = r.clock.Unix()
			}
			for _, f := range o.Fail {
				r.svc.SetScript(f, nil)
			}
			injected := false
			for _, rq := range r.svc.Log()[l0:] {
				if rq.Outcome == "error:injected" || rq.Outcome == "error:notfound" || rq.Outcome == "error:denied" {
					injected = true
				}
			}
			if err != nil {
				r.info.Class("poll-failed")
				if !injected {
					return r.viol("poll-fails-only-on-service-failure", "step %d: Refresh failed without any failing request: %v", i, err)
				}
				if r.cache.NumWrites() != w0 {
					// a failed poll must not have changed what is served
					doc, derr := model.DecodeCacheStrict(r.cache.Data())
					if derr != nil {
						return h.V("cache-document-well-formed", "step %d: %v", i, derr)
					}
					for n, m := range r.model {
						if e, ok := doc[n]; ok && e.Version != m.ver {
							if v := r.viol("failed-poll-keeps-old-values", "step %d: Refresh failed (%v) yet %q moved from version %d to %d", i, err, n, m.ver, e.Version); v != nil {
								return v
							}
						}
					}
					// and whatever it dropped must have been droppable
					if v := r.docCheck(i, what, true, nil); v != nil {
						return v
					}
				} else {
					for _, m := range r.model {
						if r.mayExpire(m) {
							m.maybeGone = true
						}
					}
				}
				continue
			}
			r.info.Class("poll-ok")
			if r.cache.NumWrites() == w0 {
				// nothing installed or dropped: everything that must be fresh must already be current
				for n, m := range r.model {
					if !r.mayExpire(m) && !window[n][m.ver] {
						if v := r.viol("fresh-after-successful-poll", "step %d: poll succeeded and installed nothing, but %q is at version %d while the service has %v (declared=%v handle=%v lastAccess=%d now=%d age=%d)", i, n, m.ver, keys(window[n]), m.declared, m.handle, m.last, r.clock.Unix(), r.c.Age); v != nil {
							return v
						}
					}
				}
				// "... and the cache holds the same": also when this poll had nothing to write, the
				// document that IS in the cache lists every known secret at its current version
				if doc, err := model.DecodeCacheStrict(r.cache.Data()); err == nil {
					for n, m := range r.model {
						if r.mayExpire(m) {
							continue
						}
						if e, ok := doc[n]; !ok || e.Version != m.ver {
							if v := r.viol("cache-agrees-after-poll", "step %d: the poll succeeded (nothing to install), but the cache document does not hold %q at version %d (present=%v, version %d): %s", i, n, m.ver, ok, e.Version, r.cache.Data()); v != nil {
								return v
							}
						}
					}
				}
				continue
			}
			if v := r.docCheck(i, what, true, window); v != nil {
				return v
			}
		case "restart":
			closeFlushFails := r.c.Poller && r.cache.FailWrite[r.cache.NumWriteCalls()+1]
			wn0 := r.cache.NumWrites()
			r.st.Close()
			if r.c.Poller && !closeFlushFails {
				// The poller has stopped and the cache device was fine: whatever was read before is on
				// record for the next process (the model keeps its own stamps; a cache that was not
				// brought up to date shows at the next poll of the next process).
				if r.cache.NumWrites() > wn0 {
					if v := r.docCheck(i, what+" (close)", false, nil); v != nil {
						return v
					}
				}
				decl := r.declared
				if o.Redeclare != nil {
					decl = o.Redeclare
				}
				w0 := r.cache.NumWrites()
				if v := r.start(decl); v != nil {
					return v
				}
				r.info.Class("restart")
				if r.cache.NumWrites() > w0 {
					if v := r.docCheck(i, what, false, nil); v != nil {
						return v
					}
				}
				continue
			}
			data := r.cache.Data()
			if len(data) > 0 {
				doc, err := model.DecodeCacheStrict(data)
				if err != nil {
					return h.V("cache-document-well-formed", "step %d restart: %v", i, err)
				}
				for n, m := range r.model {
					e, ok := doc[n]
					if !ok {
						delete(r.model, n)
						continue
					}
					m.last, m.ver = e.LastAccess, e.Version
				}
			} else {
				r.model = map[string]*mname{}
			}
			decl := r.declared
			if o.Redeclare != nil {
				decl = o.Redeclare
			}
			w0 := r.cache.NumWrites()
			if v := r.start(decl); v != nil {
				return v
			}
			r.info.Class("restart")
			if r.cache.NumWrites() > w0 {
				if v := r.docCheck(i, what, false, nil); v != nil {
					return v
				}
			}
		}
	}
	return nil
}

func genStoreCase(rt *rapid.T, prop string) StoreCase {
	c := StoreCase{Age: rapid.SampledFrom([]int{0, 10, 10, 100}).Draw(rt, "age")}
	if rapid.Bool().Draw(rt, "fractional") {
		c.AgeMs = rapid.SampledFrom([]int{400, 500, 900}).Draw(rt, "agems")
		c.FracMs = rapid.SampledFrom([]int{0, 300, 450, 700, 950}).Draw(rt, "fracms")
	}
	c.Declared = rapid.SampledFrom([][]string{{"d1"}, {"d1", "d2"}, {"d1", "d2", "d1"}}).Draw(rt, "declared")
	if rapid.IntRange(0, 1).Draw(rt, "seeded") == 0 {
		n := rapid.IntRange(1, 2).Draw(rt, "nseeds")
		for i := 0; i < n; i++ {
			c.Seeds = append(c.Seeds, CacheSeed{
				Name: []string{"u1", "u2"}[i],
				Last: int64(rapid.SampledFrom([]int{0x7fffffff, -1000, -11, -10, -9, 0, 1, 50, 100000}).Draw(rt, "stamp")),
			})
		}
	}
	c.Wire = rapid.IntRange(0, 3).Draw(rt, "wire") == 0
	c.FileCache = rapid.IntRange(0, 3).Draw(rt, "filecache") == 0
	c.NoLookup = rapid.IntRange(0, 5).Draw(rt, "nolookup") == 0
	if rapid.IntRange(0, 3).Draw(rt, "startfail") == 0 {
		c.StartFail = rapid.SampledFrom([]string{"d1", "d2"}).Draw(rt, "startfailname")
	}
	kinds := []string{"read", "read", "handle", "lookup", "lookup", "watch", "apply", "poll", "poll", "poll", "advance", "advance", "restart", "set", "set"}
	if prop == "C19" {
		kinds = []string{"read", "read", "handle", "lookup", "lookup", "lookup", "watch", "apply", "apply", "poll", "poll", "poll", "advance", "advance", "advance", "restart", "set"}
		if c.Poller = rapid.Bool().Draw(rt, "poller"); c.Poller {
			kinds = append(kinds, "restart", "failwrite")
		}
		if c.Age == 0 && rapid.Bool().Draw(rt, "age-on") {
			c.Age = 10
		}
	}
	c.Ops = rapid.SliceOfN(rapid.Custom(func(rt *rapid.T) SOp {
		o := SOp{Kind: rapid.SampledFrom(kinds).Draw(rt, "kind")}
		switch o.Kind {
		case "advance":
			o.N = rapid.SampledFrom([]int{1, 9, 10, 11, 11, 11, 99, 100, 101, 500}).Draw(rt, "secs")
		case "poll":
			if rapid.IntRange(0, 4).Draw(rt, "withfail") == 0 {
				o.Fail = rapid.SliceOfNDistinct(rapid.SampledFrom(allStoreNames), 1, 2, func(s string) string { return s }).Draw(rt, "fail")
				o.FailKind = rapid.SampledFrom([]string{"err", "err", "notfound", "denied"}).Draw(rt, "failkind")
			}
			if prop == "C11" {
				if rapid.IntRange(0, 4).Draw(rt, "withmid") == 0 {
					o.MidAfter = rapid.IntRange(1, 3).Draw(rt, "midafter")
					o.MidName = rapid.SampledFrom(allStoreNames).Draw(rt, "midname")
				}
			}
			if rapid.IntRange(0, 3).Draw(rt, "withmidhandle") == 0 {
				o.MidAfter = rapid.IntRange(1, 2).Draw(rt, "midafter-h")
				o.MidHandle = rapid.SampledFrom([]string{"u1", "u1", "u2", uOdd, "d2"}).Draw(rt, "midhandle")
			}
		case "restart":
			if rapid.IntRange(0, 2).Draw(rt, "redeclare") == 0 {
				o.Redeclare = rapid.SampledFrom([][]string{{"d1"}, {"d2"}, {"d1", "u1"}, {"d1", "d2"}}).Draw(rt, "newdecl")
			}
		case "set":
			o.Name = rapid.SampledFrom(allStoreNames).Draw(rt, "name")
			o.N = rapid.SampledFrom([]int{0, 0, 0, 1, 2}).Draw(rt, "which")
		case "read", "handle":
			o.Name = rapid.SampledFrom([]string{"u1", "u1", "u2", uOdd, "d1", "d2"}).Draw(rt, "name")
		default:
			o.Name = rapid.SampledFrom(allStoreNames).Draw(rt, "name")
		}
		return o
	}), h.LenBias(rt, 1, 30), 30).Draw(rt, "ops")
	// a service that keeps failing for one secret: some failing polls are repeated 2-4 times in a row
	// (the same names fail each time), followed by a poll during which the service is healthy again
	var ops []SOp
	for _, o := range c.Ops {
		ops = append(ops, o)
		if o.Kind == "poll" && len(o.Fail) > 0 && len(ops) < 40 {
			if k := rapid.SampledFrom([]int{0, 0, 1, 2, 3}).Draw(rt, "failrun"); k > 0 {
				for j := 0; j < k; j++ {
					ops = append(ops, SOp{Kind: "poll", Fail: o.Fail, FailKind: o.FailKind})
				}
				ops = append(ops, SOp{Kind: "set", Name: o.Fail[0]}, SOp{Kind: "poll"})
			}
		}
	}
	c.Ops = ops
	return c
}

func runStoreCase(prop string) func(t *testing.T, c StoreCase) (*h.Violation, h.Info) {
	return func(t *testing.T, c StoreCase) (*h.Violation, h.Info) {
		var info h.Info
		r := &storeRun{prop: prop, c: c, info: &info}
		v := r.run()
		seen := map[string]bool{}
		var cs []string
		for _, cl := range info.Classes {
			if !seen[cl] {
				seen[cl] = true
				cs = append(cs, cl)
			}
		}
		info.Classes = cs
		if r.foreign {
			info.Classes = append(info.Classes, "stopped-at-clause-owned-by-other-property")
		}
		if prop == "C11" {
			info.NonTrivial = seen["poll-ok"] && (seen["activate-existing-version"] || seen["poll-failed"] || seen["poll-covers-stale-but-pinned"] || seen["change-during-poll"])
		} else {
			// an expiration happened and another candidate was protected
			protected := false
			for _, o := range c.Ops {
				if o.Kind == "read" || o.Kind == "handle" || o.Kind == "watch" {
					protected = true
				}
			}
			info.NonTrivial = seen["expired"] && protected
		}
		return v, info
	}
}

var c11 = &h.Campaign[StoreCase]{
	Prop: "C11", Sub: "history",
	Rule: "rapid: store histories (1-30 events: read a handle, obtain a handle/watcher, lookup, service activates a new or an OLDER version, clock advance clustered around the expiry age, Refresh - optionally with per-request failures or a service change after its n-th request -, restart from the written cache with the same or another declared set) against a scripted service with injected clock and recording cache, expiry age in {0,10,100}s (+ 0/400/500/900 ms, with a clock that reads 0-950 ms past the whole second), start-up caches with undeclared entries stamped 0/past/future; after a Refresh that returned nil every known, non-expirable secret must be at a version that was active during that poll (judged from the cache document the poll wrote, or from the absence of a write), after a failed one nothing may have moved; non-trivial = a successful poll in a history that also has an activation backwards, an injected failure, a change during a poll, or a stale-but-pinned undeclared secret; distinct by history",
	Quick: 10000, Thorough: 2000000,
	Gen:   func(rt *rapid.T) StoreCase { return genStoreCase(rt, "C11") },
	Run:   runStoreCase("C11"),
}

var c19 = &h.Campaign[StoreCase]{
	Prop: "C19", Sub: "history",
	Rule: "rapid: the same store histories as C11 (polls may carry per-request failures: plain error, not-found or access-denied), judged by the expiry rules: a name may vanish from the cache document only at a poll and only if undeclared AND an age is set AND now-lastAccess > age AND no handle/watcher was handed out by this process; every document must carry the model's last-access stamps (reads refresh them; without a poller they survive restart as far as the last document actually written says; in half of the histories the store runs a poller, Close then flushes, single cache writes may be made to fail, and the next process is held to the TRUE stamps unless the shutdown flush itself was the write that failed); non-trivial = a history in which an expiration happened and some secret was read/pinned; distinct by history",
	Quick: 10000, Thorough: 2000000,
	Gen:   func(rt *rapid.T) StoreCase { return genStoreCase(rt, "C19") },
	Run:   runStoreCase("C19"),
}

func init() { c11.Register(); c19.Register() }

func TestC11History(t *testing.T) { c11.Check(t) }
func TestC19History(t *testing.T) { c19.Check(t) }

var _ = strings.Join
