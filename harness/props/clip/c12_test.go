package clip

import (
	"context"
	"fmt"
	"runtime"
	"strings"
	"sync"
	"sync/atomic"
	"testing"
	"time"

	"github.com/tailscale/setec/client/setec"
	"pgregory.net/rapid"
	"verifharness/fake"
	"verifharness/h"
	"verifharness/model"
)

// ---- C12: handles: complete, really-served, non-blocking, race-free ----------------

type HEvent struct {
	Kind string `json:"kind"` // set | poll | refresh | lookup | expire | close | parked-poll | parked-lookup | handle-during-poll | yield
	Name string `json:"name,omitempty"`
}

type HandleCase struct {
	Readers int      `json:"readers"`
	Events  []HEvent `json:"events"`
	Yield   int      `json:"yield"` // readers call Gosched every Yield reads (0 = never)
}

func c12Value(name string, ver uint32) []byte {
	pad := strings.Repeat(string(rune('a'+ver%26)), int(ver%7)*13)
	return []byte(fmt.Sprintf("%s#%d#%s", name, ver, pad))
}

func parseC12(b []byte) (name string, ver uint32, ok bool) {
	parts := strings.SplitN(string(b), "#", 3)
	if len(parts) != 3 {
		return "", 0, false
	}
	var v uint32
	if _, err := fmt.Sscanf(parts[1], "%d", &v); err != nil {
		return "", 0, false
	}
	if string(c12Value(parts[0], v)) != string(b) {
		return "", 0, false
	}
	return parts[0], v, true
}

type namedHandle struct {
	name string
	h    setec.Secret
}

func runC12(t *testing.T, c HandleCase) (*h.Violation, h.Info) {
	var info h.Info
	svc := fake.NewSvc()
	all := []string{"d1", "d2", "u1", "u2", "u3", "c1", "c2"}
	cur := map[string]uint32{}
	for _, n := range all {
		svc.Set(n, 1, c12Value(n, 1))
		cur[n] = 1
	}
	clock := fake.NewClock(clockStart)
	tick := newChanTicker()
	st, err := setec.NewStore(context.Background(), setec.StoreConfig{
		// the start-up cache supplies two undeclared secrets nobody holds a handle for yet (stale from the start)
		Client: svc, Secrets: []string{"d1", "d2"}, AllowLookup: true, Cache: fake.NewCache(model.EncodeCache(model.CacheDoc{
			"c1": {Version: 1, Value: c12Value("c1", 1), LastAccess: 0}, "c2": {Version: 1, Value: c12Value("c2", 1), LastAccess: clockStart - 1000},
		})),
		PollTicker: tick, ExpiryAge: 10 * time.Second, TimeNow: clock.Now, Logf: nolog,
	})
	if err != nil {
		return h.V("harness", "NewStore: %v", err), info
	}
	closed := false
	defer func() {
		svc.Release()
		if !closed {
			st.Close()
		}
	}()
	var hmu sync.Mutex
	handles := []namedHandle{{"d1", st.Secret("d1")}, {"d2", st.Secret("d2")}}
	var acked sync.Map // name -> *atomic.Uint32: version whose installing poll has been acknowledged
	for _, n := range all {
		a := &atomic.Uint32{}
		a.Store(0)
		acked.Store(n, a)
	}
	ackOf := func(n string) *atomic.Uint32 { v, _ := acked.Load(n); return v.(*atomic.Uint32) }
	ackOf("d1").Store(1)
	ackOf("d2").Store(1)

	var bad atomic.Value
	fail := func(clause, format string, args ...any) {
		bad.CompareAndSwap(nil, h.V(clause, format, args...))
	}
	var reads, overlapped atomic.Int64
	var installing atomic.Int32
	stop := make(chan struct{})
	var wg sync.WaitGroup
	readAll := func(last map[string]uint32, count *int) {
		hmu.Lock()
		hs := append([]namedHandle{}, handles...)
		hmu.Unlock()
		for _, nh := range hs {
			min := ackOf(nh.name).Load()
			inst := installing.Load() > 0
			b := nh.h.Get()
			reads.Add(1)
			if inst && installing.Load() > 0 {
				overlapped.Add(1)
			}
			name, ver, ok := parseC12(b)
			if !ok {
				fail("complete-really-served-value", "handle of %q returned %q, which is not a complete value the service ever served", nh.name, b)
				return
			}
			if name != nh.name {
				fail("never-another-secrets-value", "handle of %q returned the value of %q", nh.name, name)
				return
			}
			if !svc.EverActive(name, ver, b) {
				fail("complete-really-served-value", "handle of %q returned version %d, never active at the service", nh.name, ver)
				return
			}
			if ver < last[nh.name] {
				fail("values-follow-install-order", "one reader saw version %d of %q after version %d", ver, nh.name, last[nh.name])
				return
			}
			if ver < min {
				fail("completed-poll-is-visible", "a poll that installed version %d of %q had completed before this read, which returned version %d", min, nh.name, ver)
				return
			}
			last[nh.name] = ver
			*count++
			if c.Yield > 0 && *count%c.Yield == 0 {
				runtime.Gosched()
			}
		}
	}
	for r := 0; r < c.Readers; r++ {
		wg.Add(1)
		go func() {
			defer wg.Done()
			defer func() {
				if p := recover(); p != nil {
					fail("never-panics", "a handle call panicked: %v", p)
				}
			}()
			last := map[string]uint32{}
			count := 0
			for {
				select {
				case <-stop:
					return
				default:
				}
				readAll(last, &count)
				if bad.Load() != nil {
					return
				}
			}
		}()
	}
	// readersProgress: every handle can be read while the service is parked
	parkedReads := func(what string) {
		done := make(chan struct{})
		go func() {
			defer close(done)
			defer func() {
				if p := recover(); p != nil {
					fail("never-panics", "a handle call panicked while %s: %v", what, p)
				}
			}()
			last := map[string]uint32{}
			n := 0
			for i := 0; i < 3; i++ {
				readAll(last, &n)
			}
		}()
		select {
		case <-done:
		case <-time.After(5 * time.Second):
			fail("never-waits-for-the-service", "handle calls did not complete within 5s (real time) while %s", what)
		}
	}
	known := map[string]bool{"d1": true, "d2": true}
	// drain makes sure no poll flight started earlier (e.g. by a parked poll whose
	// caller was cancelled) is still running: a Refresh that returns nil was either
	// a fresh flight or joined one that succeeded.
	drain := func() bool {
		for i := 0; i < 200; i++ {
			if st.Refresh(context.Background()) == nil {
				return true
			}
			time.Sleep(100 * time.Microsecond)
		}
		return false
	}
	doPoll := func(viaTicker bool) {
		pending := map[string]uint32{}
		for n := range known {
			pending[n] = cur[n]
		}
		installing.Add(1)
		if viaTicker && !closed {
			tick.Poll()
		}
		// the acknowledged poll is an explicit Refresh started after the change, with
		// no older flight in progress (see drain), and it must have succeeded
		err := st.Refresh(context.Background())
		installing.Add(-1)
		if err != nil {
			fail("harness", "Refresh failed although the service is healthy: %v", err)
			return
		}
		for n, v := range pending {
			if a := ackOf(n); a.Load() < v {
				a.Store(v)
			}
		}
	}
	for _, ev := range c.Events {
		if bad.Load() != nil {
			break
		}
		switch ev.Kind {
		case "set":
			cur[ev.Name]++
			svc.Set(ev.Name, cur[ev.Name], c12Value(ev.Name, cur[ev.Name]))
		case "poll":
			doPoll(true)
		case "refresh":
			doPoll(false)
		case "lookup":
			if known[ev.Name] {
				continue
			}
			v := cur[ev.Name]
			hd, err := st.LookupSecret(context.Background(), ev.Name)
			if err != nil {
				fail("harness", "lookup %q: %v", ev.Name, err)
				break
			}
			known[ev.Name] = true
			if ev.Name == "c1" || ev.Name == "c2" {
				v = 1 // may be served from the start-up cache without a fetch; only version 1 is certain
			}
			ackOf(ev.Name).Store(v)
			hmu.Lock()
			handles = append(handles, namedHandle{ev.Name, hd})
			hmu.Unlock()
			info.Class("lookup-during-reads")
		case "expire":
			clock.Advance(11)
			doPoll(true)
			info.Class("expiry-sweep")
		case "close":
			if !closed {
				st.Close()
				closed = true
				info.Class("closed-while-reading")
			}
		case "yield":
			time.Sleep(200 * time.Microsecond)
		case "parked-poll":
			// the service holds the first request of a poll while every handle is read
			for n := range known {
				svc.SetScript(n, []fake.Beh{{Kind: "hang"}})
			}
			ctx, cancel := context.WithCancel(context.Background())
			pdone := make(chan struct{})
			l0 := svc.LogLen()
			go func() { st.Refresh(ctx); close(pdone) }()
			for i := 0; i < 2000 && svc.LogLen() == l0; i++ {
				time.Sleep(50 * time.Microsecond)
			}
			parkedReads("a poll request is outstanding")
			cancel()
			<-pdone
			for n := range known {
				svc.SetScript(n, nil)
			}
			if !drain() {
				fail("harness", "polls keep failing after a parked poll was released")
			}
			info.Class("reads-while-poll-parked")
		case "handle-during-poll":
			// the program takes a handle for a cached, so far unreferenced secret while a poll is
			// between its snapshot and its apply step (the hook runs inside the poll's first request)
			name := ev.Name
			if name != "c1" && name != "c2" {
				name = "c1"
			}
			if known[name] {
				continue
			}
			taken := false
			svc.ResetCount()
			svc.OnRequest = func(n int, _ string) {
				if n != 1 || taken {
					return
				}
				taken = true
				// obtained from another goroutine under a watchdog: code that holds the store's lock
				// across this request would otherwise dead-lock the poll against itself
				got := make(chan setec.Secret, 1)
				go func() { got <- st.Secret(name) }()
				select {
				case hd := <-got:
					if hd != nil {
						known[name] = true
						ackOf(name).Store(1)
						hmu.Lock()
						handles = append(handles, namedHandle{name, hd})
						hmu.Unlock()
						info.Class("handle-taken-during-poll")
					}
				case <-time.After(5 * time.Second):
					fail("never-waits-for-the-service", "obtaining a handle did not complete within 5s (real time) while a poll request was outstanding")
				}
			}
			clock.Advance(11)
			doPoll(true)
			svc.OnRequest = nil
		case "parked-lookup":
			name := ""
			for _, n := range []string{"u1", "u2", "u3"} {
				if !known[n] {
					name = n
					break
				}
			}
			if name == "" {
				continue
			}
			svc.SetScript(name, []fake.Beh{{Kind: "hang"}})
			ctx, cancel := context.WithCancel(context.Background())
			pdone := make(chan struct{})
			l0 := svc.LogLen()
			go func() { st.LookupSecret(ctx, name); close(pdone) }()
			for i := 0; i < 2000 && svc.LogLen() == l0; i++ {
				time.Sleep(50 * time.Microsecond)
			}
			parkedReads("a lookup request is outstanding")
			cancel()
			<-pdone
			svc.SetScript(name, nil)
			info.Class("reads-while-lookup-parked")
		}
	}
	// let readers run a little after the last event, then stop
	time.Sleep(100 * time.Microsecond)
	close(stop)
	wg.Wait()
	if b := bad.Load(); b != nil {
		return b.(*h.Violation), info
	}
	// final: after everything (possibly after Close) every handle still yields the installed value
	hmu.Lock()
	defer hmu.Unlock()
	for _, nh := range handles {
		var b []byte
		if v := h.Safely(func() *h.Violation { b = nh.h.Get(); return nil }); v != nil {
			return h.V("never-panics", "handle of %q panicked at the end: %s", nh.name, v.Detail), info
		}
		if _, ver, ok := parseC12(b); !ok || ver < ackOf(nh.name).Load() {
			return h.V("completed-poll-is-visible", "at the end handle of %q yields %q, acknowledged version %d", nh.name, b, ackOf(nh.name).Load()), info
		}
	}
	info.NonTrivial = overlapped.Load() > 0
	if info.NonTrivial {
		info.Class("reads-overlapped-an-install")
	}
	return nil, info
}

func genHandleCase(rt *rapid.T) HandleCase {
	c := HandleCase{Readers: rapid.IntRange(2, 8).Draw(rt, "readers"), Yield: rapid.SampledFrom([]int{0, 1, 3, 17}).Draw(rt, "yield")}
	c.Events = rapid.SliceOfN(rapid.Custom(func(rt *rapid.T) HEvent {
		return HEvent{
			Kind: rapid.SampledFrom([]string{"set", "set", "set", "poll", "poll", "refresh", "lookup", "expire", "yield", "yield", "parked-poll", "parked-lookup", "handle-during-poll", "close"}).Draw(rt, "kind"),
			Name: rapid.SampledFrom([]string{"d1", "d1", "d2", "u1", "u2", "u3", "c1", "c2"}).Draw(rt, "name"),
		}
	}), 3, 30).Draw(rt, "events")
	return c
}

var c12 = &h.Campaign[HandleCase]{
	Prop: "C12", Sub: "handles",
	Rule: "rapid, under the race detector: 2-8 reader goroutines spin over every handle (declared ones and ones published by lookups) while a driver executes 3-30 generated events: service change, poll through the store's poller, explicit Refresh, lookup of a new name, expiry sweep (clock jump + poll), Close, and 'parked' polls/lookups during which the service holds the request while all handles are read under a 5 s real-time watchdog; values are self-describing (name#version#padding of version-dependent length); per read: parses as a value the service served for that name, per reader versions never go backwards, a version whose installing poll was acknowledged before the read is the minimum; non-trivial = reads overlapped an install (counted from an 'installing' flag sampled around each read); distinct by (scenario, run) because schedules are sampled",
	Quick: 1200, Thorough: 40000,
	Gen:   genHandleCase,
	Run:   runC12,
	Key:   func(c HandleCase) any { return fmt.Sprintf("%v/%d", c, nonce.Add(1)) },
}

func init() { c12.Register() }

func TestC12RaceHandles(t *testing.T) { c12.Check(t) }
