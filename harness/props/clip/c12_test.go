package clip

import (
	"bytes"
	"context"
	"encoding/base64"
	"fmt"
	"runtime"
	"strings"
	"sync"
	"sync/atomic"
	"testing"
	"time"

	"github.com/tailscale/setec/client/setec"
	"pgregory.net/rapid"
	"verifharness/fake"
	"verifharness/h"
	"verifharness/model"
)

// ---- C12: handles: complete, really-served, non-blocking, race-free ----------------

type HEvent struct {
	Kind string `json:"kind"` // set | poll | refresh | lookup | expire | close | parked-poll | parked-lookup | handle-during-poll | joiner-timeout | yield
	Name string `json:"name,omitempty"`
	Back bool   `json:"back,omitempty"` // set: activate an older version instead of a new one
}

type HandleCase struct {
	Readers int      `json:"readers"`
	Events  []HEvent `json:"events"`
	Yield   int      `json:"yield"` // readers call Gosched every Yield reads (0 = never)
	// 0 = the start-up cache is fine; 1..3 = the value of ONE of its entries is spelled in a way the
	// decoder rejects (base64 without padding / URL-safe alphabet / a number): no handle may ever
	// yield anything but bytes the service served or the cache really supplied
	OddCache int `json:"odd_cache,omitempty"`
}

// Version 3 of every secret is the empty byte string (the service accepts and serves it like any
// other value); it is the only version of a name without self-describing bytes, so an empty read
// of a handle stands for version 3 of that handle's name.
// The undeclared names are path variants of one another: to the service (and so to the store) a
// name is an opaque string, "u/k", "u//k" and "u/./k" are three secrets with three values.
const c12U1, c12U2, c12U3 = "u/k", "u//k", "u/./k"

func c12Value(name string, ver uint32) []byte {
	if ver == 3 {
		return []byte{}
	}
	pad := strings.Repeat(string(rune('a'+ver%26)), int(ver%7)*13)
	return []byte(fmt.Sprintf("%s#%d#%s", name, ver, pad))
}

// parseFor decodes what the handle of name returned.
func parseFor(name string, b []byte) (string, uint32, bool) {
	if len(b) == 0 {
		return name, 3, true
	}
	return parseC12(b)
}

func parseC12(b []byte) (name string, ver uint32, ok bool) {
	parts := strings.SplitN(string(b), "#", 3)
	if len(parts) != 3 {
		return "", 0, false
	}
	var v uint32
	if _, err := fmt.Sscanf(parts[1], "%d", &v); err != nil {
		return "", 0, false
	}
	if string(c12Value(parts[0], v)) != string(b) {
		return "", 0, false
	}
	return parts[0], v, true
}

type namedHandle struct {
	name string
	h    setec.Secret
}

// a handle call that never returns (a lock that was never released) cannot be waited for: see h.StuckWatch
var c12stuck = h.NewStuckWatch("C12", "handles", "never-waits-for-the-service", "a handle call", 45*time.Second)
var c12slot atomic.Int64

func runC12(t *testing.T, c HandleCase) (*h.Violation, h.Info) {
	var info h.Info
	c12stuck.Begin(c)
	svc := fake.NewSvc()
	all := []string{"d1", "d2", c12U1, c12U2, c12U3, "c1", "c2"}
	cur := map[string]uint32{}
	for _, n := range all {
		svc.Set(n, 1, c12Value(n, 1))
		cur[n] = 1
	}
	clock := fake.NewClock(clockStart)
	tick := newChanTicker()
	// the start-up cache supplies two undeclared secrets nobody holds a handle for yet (stale from the start)
	cacheBytes := model.EncodeCache(model.CacheDoc{
		"c1": {Version: 1, Value: c12Value("c1", 1), LastAccess: 0}, "c2": {Version: 1, Value: c12Value("c2", 1), LastAccess: clockStart - 1000},
	})
	if c.OddCache > 0 {
		std := base64.StdEncoding.EncodeToString(c12Value("c2", 1))
		odd := []string{"", `"` + strings.TrimRight(std, "=") + `"`, `"` + base64.URLEncoding.EncodeToString(append([]byte{0xfb, 0xff}, c12Value("c2", 1)...)) + `"`, "12345"}[c.OddCache]
		if odd == `"`+std+`"` {
			odd = `"` + std + `="` // (no padding to strip: make it over-padded instead)
		}
		cacheBytes = bytes.Replace(cacheBytes, []byte(`"`+std+`"`), []byte(odd), 1)
		info.Class("start-up-cache-with-an-oddly-spelled-value")
	}
	cache := fake.NewCache(cacheBytes)
	// the program also has d1 and d2 filled into a struct of its own (copies, says the documentation) ...
	var own struct {
		D1 []byte `setec:"d1"`
		D2 []byte `setec:"d2"`
	}
	st, err := setec.NewStore(context.Background(), setec.StoreConfig{
		Client: svc, Secrets: []string{"d1", "d2"}, Structs: []setec.Struct{{Value: &own}}, AllowLookup: true, Cache: cache,
		PollTicker: tick, ExpiryAge: 10 * time.Second, TimeNow: clock.Now, Logf: nolog,
	})
	if err != nil {
		return h.V("harness", "NewStore: %v", err), info
	}
	// ... and wipes them once it has used them: what the handles yield is none of its business
	for i := range own.D1 {
		own.D1[i] = 0
	}
	for i := range own.D2 {
		own.D2[i] = '#'
	}
	if c.OddCache > 0 {
		for _, n := range []string{"c1", "c2"} {
			if hd := st.Secret(n); hd != nil {
				if b := hd.Get(); !bytes.Equal(b, c12Value(n, 1)) {
					return h.V("complete-really-served-value", "the start-up cache spells the value of \"c2\" in a way the decoder rejects (variant %d); the handle of %q nevertheless exists and yields %q - neither what the cache supplied (%q) nor anything the service served", c.OddCache, n, b, c12Value(n, 1)), info
				}
			}
		}
	}
	closed := false
	defer func() {
		svc.Release()
		if !closed {
			st.Close()
		}
	}()
	var hmu sync.Mutex
	handles := []namedHandle{{"d1", st.Secret("d1")}, {"d2", st.Secret("d2")}}
	// installs[name] is the sequence of versions the store installed (or is about to install: the
	// driver appends before it polls); acked[name] is the index whose installing poll has completed.
	// Versions may go DOWN (the operator activates an older version), so order is by install, not by number.
	var imu sync.RWMutex
	installs := map[string][]uint32{"d1": {1}, "d2": {1}}
	maxVer := map[string]uint32{}
	var acked sync.Map // name -> *atomic.Int32
	for _, n := range all {
		a := &atomic.Int32{}
		acked.Store(n, a)
		maxVer[n] = 1
	}
	ackOf := func(n string) *atomic.Int32 { v, _ := acked.Load(n); return v.(*atomic.Int32) }
	// firstInstall records what a freshly obtained handle serves (by reading it once)
	firstInstall := func(name string, hd setec.Secret) bool {
		_, ver, ok := parseFor(name, hd.Get())
		if !ok {
			return false
		}
		imu.Lock()
		installs[name] = []uint32{ver}
		imu.Unlock()
		ackOf(name).Store(0)
		return true
	}

	var bad atomic.Value
	fail := func(clause, format string, args ...any) {
		bad.CompareAndSwap(nil, h.V(clause, format, args...))
	}
	var reads, overlapped atomic.Int64
	var installing atomic.Int32
	stop := make(chan struct{})
	var wg sync.WaitGroup
	readAll := func(last map[string]int, count *int) {
		hmu.Lock()
		hs := append([]namedHandle{}, handles...)
		hmu.Unlock()
		for _, nh := range hs {
			min := int(ackOf(nh.name).Load())
			inst := installing.Load() > 0
			slot := int(c12slot.Add(1))
			c12stuck.Enter(slot)
			b := nh.h.Get()
			c12stuck.Leave(slot)
			reads.Add(1)
			if inst && installing.Load() > 0 {
				overlapped.Add(1)
			}
			name, ver, ok := parseFor(nh.name, b)
			if !ok {
				fail("complete-really-served-value", "handle of %q returned %q, which is not a complete value the service ever served", nh.name, b)
				return
			}
			if name != nh.name {
				fail("never-another-secrets-value", "handle of %q returned the value of %q", nh.name, name)
				return
			}
			if !svc.EverActive(name, ver, b) {
				fail("complete-really-served-value", "handle of %q returned version %d, never active at the service", nh.name, ver)
				return
			}
			imu.RLock()
			seq := append([]uint32{}, installs[nh.name]...)
			imu.RUnlock()
			pos, seen := last[nh.name]
			if !seen {
				pos = 0
			}
			from := pos
			if min > from {
				from = min
			}
			found := -1
			for j := from; j < len(seq); j++ {
				if seq[j] == ver {
					found = j
					break
				}
			}
			if found < 0 {
				if min > pos {
					fail("completed-poll-is-visible", "the poll that installed entry %d of %v for %q had completed before this read, which returned version %d (this reader was at entry %d)", min, seq, nh.name, ver, pos)
				} else {
					fail("values-follow-install-order", "one reader saw version %d of %q after it had reached entry %d of the install sequence %v", ver, nh.name, pos, seq)
				}
				return
			}
			last[nh.name] = found
			*count++
			if c.Yield > 0 && *count%c.Yield == 0 {
				runtime.Gosched()
			}
		}
	}
	for r := 0; r < c.Readers; r++ {
		wg.Add(1)
		go func() {
			defer wg.Done()
			defer func() {
				if p := recover(); p != nil {
					fail("never-panics", "a handle call panicked: %v", p)
				}
			}()
			last := map[string]int{}
			count := 0
			for {
				select {
				case <-stop:
					return
				default:
				}
				readAll(last, &count)
				if bad.Load() != nil {
					return
				}
			}
		}()
	}
	// readersProgress: every handle can be read while the service is parked
	parkedReads := func(what string) {
		done := make(chan struct{})
		go func() {
			defer close(done)
			defer func() {
				if p := recover(); p != nil {
					fail("never-panics", "a handle call panicked while %s: %v", what, p)
				}
			}()
			last := map[string]int{}
			n := 0
			for i := 0; i < 3; i++ {
				readAll(last, &n)
			}
		}()
		select {
		case <-done:
		case <-time.After(5 * time.Second):
			fail("never-waits-for-the-service", "handle calls did not complete within 5s (real time) while %s", what)
		}
	}
	known := map[string]bool{"d1": true, "d2": true}
	var idle []namedHandle
	// drain makes sure no poll flight started earlier (e.g. by a parked poll whose
	// caller was cancelled) is still running: a Refresh that returns nil was either
	// a fresh flight or joined one that succeeded.
	var plan func() map[string]int
	var commit func(map[string]int)
	drain := func() bool {
		pending := plan()
		for i := 0; i < 200; i++ {
			if st.Refresh(context.Background()) == nil {
				commit(pending)
				return true
			}
			if closed && i >= 3 {
				return true // (a closed store may decline to poll for good: nothing to drain, nothing acknowledged)
			}
			time.Sleep(100 * time.Microsecond)
		}
		return false
	}
	// plan appends, for every known name whose service version differs from the last installed
	// one, the version the next successful poll will install; commit acknowledges them.
	plan = func() map[string]int {
		pending := map[string]int{}
		imu.Lock()
		for n := range known {
			seq := installs[n]
			if len(seq) > 0 && seq[len(seq)-1] != cur[n] {
				installs[n] = append(seq, cur[n])
				pending[n] = len(seq)
			}
		}
		imu.Unlock()
		return pending
	}
	commit = func(pending map[string]int) {
		for n, idx := range pending {
			if a := ackOf(n); int(a.Load()) < idx {
				a.Store(int32(idx))
			}
		}
	}
	doPoll := func(viaTicker bool) {
		pending := plan()
		installing.Add(1)
		if viaTicker && !closed {
			tick.Poll()
		}
		// names that became known during that poll (a handle taken mid-poll) are polled from the next one on
		pending2 := plan()
		// the acknowledged poll is an explicit Refresh started after the change, with
		// no older flight in progress (see drain), and it must have succeeded
		err := st.Refresh(context.Background())
		installing.Add(-1)
		if err != nil && closed {
			// a closed store may decline to poll: then nothing was installed and nothing is acknowledged
			info.Class("closed-store-declined-a-refresh")
			return
		}
		if err != nil {
			fail("harness", "Refresh failed although the service is healthy: %v", err)
			return
		}
		commit(pending)
		commit(pending2)
	}
	for _, ev := range c.Events {
		if bad.Load() != nil {
			break
		}
		switch ev.Kind {
		case "set":
			if ev.Back && maxVer[ev.Name] >= 2 {
				// the operator activates an older version again
				v := cur[ev.Name] - 1
				if v < 1 {
					v = maxVer[ev.Name]
				}
				cur[ev.Name] = v
				info.Class("activation-backwards")
			} else {
				maxVer[ev.Name]++
				cur[ev.Name] = maxVer[ev.Name]
			}
			svc.Set(ev.Name, cur[ev.Name], c12Value(ev.Name, cur[ev.Name]))
		case "poll":
			doPoll(true)
		case "refresh":
			doPoll(false)
		case "lookup":
			if known[ev.Name] {
				continue
			}
			hd, err := st.LookupSecret(context.Background(), ev.Name)
			if err != nil && closed {
				info.Class("closed-store-declined-a-lookup") // (it may: no handle was obtained, nothing to hold it to)
				continue
			}
			if err != nil {
				fail("harness", "lookup %q: %v", ev.Name, err)
				break
			}
			if !firstInstall(ev.Name, hd) {
				fail("complete-really-served-value", "a freshly looked-up handle of %q returned %q", ev.Name, hd.Get())
				break
			}
			known[ev.Name] = true
			hmu.Lock()
			handles = append(handles, namedHandle{ev.Name, hd})
			hmu.Unlock()
			info.Class("lookup-during-reads")
		case "expire":
			clock.Advance(11)
			doPoll(true)
			info.Class("expiry-sweep")
		case "close":
			if !closed {
				if ev.Back {
					// the cache device goes away just before shutdown: the final flush fails
					cache.SetFailing(true)
					info.Class("closed-with-a-failing-cache")
				}
				st.Close()
				cache.SetFailing(false)
				closed = true
				info.Class("closed-while-reading")
			}
		case "yield":
			time.Sleep(200 * time.Microsecond)
		case "clock-back":
			// the wall clock is stepped back (an NTP correction, a VM resumed from a snapshot): what a
			// handle yields has nothing to do with the time of day
			clock.Advance(-45)
			info.Class("wall-clock-stepped-back")
		case "failed-poll":
			// the service fails the request for ONE secret during an explicit poll: the poll reports it,
			// nothing it fetched for the other secrets counts as installed, and the next poll starts afresh
			if closed || !known[ev.Name] {
				continue
			}
			pending := plan()
			svc.SetScript(ev.Name, []fake.Beh{{Kind: "err"}})
			installing.Add(1)
			err := st.Refresh(context.Background())
			installing.Add(-1)
			svc.SetScript(ev.Name, nil)
			if err == nil {
				commit(pending) // (the failing request was never needed)
			} else {
				info.Class("a-poll-that-failed-on-one-secret")
			}
		case "parked-poll":
			// the service holds the first request of a poll while every handle is read
			for n := range known {
				svc.SetScript(n, []fake.Beh{{Kind: "hang"}})
			}
			ctx, cancel := context.WithCancel(context.Background())
			pdone := make(chan struct{})
			l0 := svc.LogLen()
			go func() { st.Refresh(ctx); close(pdone) }()
			for i := 0; i < 2000 && svc.LogLen() == l0; i++ {
				time.Sleep(50 * time.Microsecond)
			}
			parkedReads("a poll request is outstanding")
			cancel()
			<-pdone
			for n := range known {
				svc.SetScript(n, nil)
			}
			if !drain() {
				fail("harness", "polls keep failing after a parked poll was released")
			}
			info.Class("reads-while-poll-parked")
		case "double-lookup":
			// two lookups of DIFFERENT unknown names whose requests overlap: each must get its own secret
			if closed {
				continue // (a closed store may decline new lookups; the gates below would wait for requests that never come)
			}
			var names []string
			for _, n := range []string{c12U1, c12U2, c12U3} {
				if !known[n] && len(names) < 2 {
					names = append(names, n)
				}
			}
			if len(names) < 2 {
				continue
			}
			svc.SetScript(names[0], []fake.Beh{{Kind: "gate"}})
			type lr struct {
				hd  setec.Secret
				err error
			}
			res := make([]chan lr, 2)
			for i, n := range names {
				res[i] = make(chan lr, 1)
				go func() {
					hd, err := st.LookupSecret(context.Background(), n)
					res[i] <- lr{hd, err}
				}()
				if i == 0 && !waitInFlight(svc, n) {
					fail("harness", "the lookup of %q did not reach the service within 20 s", n)
				}
			}
			// give the second lookup a moment to either finish on its own or (wrongly) attach to the first
			var second lr
			gotSecond := false
			select {
			case second = <-res[1]:
				gotSecond = true
			case <-time.After(3 * time.Millisecond):
			}
			svc.OpenGate()
			svc.SetScript(names[0], nil)
			var first lr
			for got := false; !got; {
				select {
				case first = <-res[0]:
					got = true
				case <-time.After(5 * time.Millisecond):
					svc.OpenGate() // in case the request reached the gate only now
				}
			}
			if !gotSecond {
				second = <-res[1]
			}
			for i, r := range []lr{first, second} {
				if r.err != nil {
					fail("harness", "lookup %q: %v", names[i], r.err)
					break
				}
				if n, _, ok := parseFor(names[i], r.hd.Get()); !ok || n != names[i] {
					fail("never-another-secrets-value", "two overlapping lookups of %q and %q: the handle returned for %q yields %q", names[0], names[1], names[i], r.hd.Get())
					break
				}
				if !firstInstall(names[i], r.hd) {
					break
				}
				known[names[i]] = true
				hmu.Lock()
				handles = append(handles, namedHandle{names[i], r.hd})
				hmu.Unlock()
			}
			info.Class("overlapping-lookups-of-different-names")
		case "idle-handle":
			// a handle that is obtained now and not touched again until the very end (possibly after Close)
			if closed || known[ev.Name] || (ev.Name != c12U1 && ev.Name != c12U2 && ev.Name != c12U3) {
				continue
			}
			hd, err := st.LookupSecret(context.Background(), ev.Name)
			if err != nil {
				fail("harness", "lookup %q: %v", ev.Name, err)
				break
			}
			known[ev.Name] = true
			imu.Lock()
			installs[ev.Name] = []uint32{cur[ev.Name]}
			imu.Unlock()
			idle = append(idle, namedHandle{ev.Name, hd})
			info.Class("idle-handle-kept")
		case "joiner-timeout":
			// Poll A stalls on d2's request (possibly after it fetched d1); d1 changes again; a Refresh with
			// a short deadline joins A and times out; another Refresh is issued while A is still stalled.
			// Whatever that last Refresh does (join A, as it should, or start a poll of its own), a value
			// installed by a poll that completed must not be replaced by an older one afterwards.
			if closed {
				continue
			}
			maxVer["d1"]++
			cur["d1"] = maxVer["d1"]
			svc.Set("d1", cur["d1"], c12Value("d1", cur["d1"]))
			pA := plan()
			svc.SetScript("d2", []fake.Beh{{Kind: "gate"}})
			aDone := make(chan error, 1)
			go func() { aDone <- st.Refresh(context.Background()) }()
			if how, err := waitInFlightOr(svc, "d2", aDone); how == "timeout" {
				fail("harness", "the poll did not reach the service within 20 s")
			} else if how == "returned" {
				// the poll came back without asking for d2 at all; if it says it succeeded, what it should
				// have installed counts as acknowledged and the readers judge it
				svc.SetScript("d2", nil)
				if err == nil {
					commit(pA)
				}
				info.Class("a-poll-returned-without-asking-for-a-known-secret")
				continue
			}
			maxVer["d1"]++
			cur["d1"] = maxVer["d1"]
			svc.Set("d1", cur["d1"], c12Value("d1", cur["d1"]))
			pB := plan() // may be installed from now on; acknowledged only by a poll that started after this point
			bctx, bcancel := context.WithTimeout(context.Background(), 2*time.Millisecond)
			st.Refresh(bctx) // joins A, times out
			bcancel()
			cDone := make(chan error, 1)
			go func() { cDone <- st.Refresh(context.Background()) }()
			select {
			case err := <-cDone:
				// it did not wait for A: then it ran a complete poll of its own, after the second change
				if err == nil {
					commit(pA)
					commit(pB)
					info.Class("refresh-overtook-a-stalled-poll")
				}
				cDone = nil
			case <-time.After(15 * time.Millisecond):
			}
			svc.OpenGate()
			svc.SetScript("d2", nil)
			for got := false; !got; {
				select {
				case err := <-aDone:
					got = true
					if err == nil {
						commit(pA)
					}
				case <-time.After(5 * time.Millisecond):
					svc.OpenGate()
				}
			}
			if cDone != nil {
				<-cDone
			}
			if !drain() {
				fail("harness", "polls keep failing after the gated poll was released")
			}
			info.Class("joiner-timed-out-on-a-stalled-poll")
		case "leader-cancelled":
			// Refresh A starts a poll and stalls at the service; Refresh B (live context) joins it; A's
			// context is cancelled. Whatever B is told: if it is told "nil", the poll it waited for has
			// completed, and every later read must show what that poll should have installed.
			if closed {
				continue
			}
			maxVer["d1"]++
			cur["d1"] = maxVer["d1"]
			svc.Set("d1", cur["d1"], c12Value("d1", cur["d1"]))
			pL := plan()
			svc.SetScript("d2", []fake.Beh{{Kind: "gate"}})
			actx, acancel := context.WithCancel(context.Background())
			laDone := make(chan error, 1)
			go func() { laDone <- st.Refresh(actx) }()
			if how, err := waitInFlightOr(svc, "d2", laDone); how == "timeout" {
				fail("harness", "the poll did not reach the service within 20 s")
			} else if how == "returned" {
				svc.SetScript("d2", nil)
				acancel()
				if err == nil {
					commit(pL)
				}
				info.Class("a-poll-returned-without-asking-for-a-known-secret")
				continue
			}
			lbDone := make(chan error, 1)
			go func() { lbDone <- st.Refresh(context.Background()) }()
			time.Sleep(2 * time.Millisecond) // let B join A's flight
			acancel()
			<-laDone
			var berr error
			for got := false; !got; {
				select {
				case berr = <-lbDone:
					got = true
				case <-time.After(5 * time.Millisecond):
					svc.OpenGate() // B may have started a poll of its own that is parked at the gate
				}
			}
			svc.OpenGate()
			svc.SetScript("d2", nil)
			if berr == nil {
				commit(pL)
			}
			if !drain() {
				fail("harness", "polls keep failing after the cancelled poll")
			}
			info.Class("joined-a-poll-whose-starter-was-cancelled")
		case "handle-during-poll":
			// the program takes a handle for a cached, so far unreferenced secret while a poll is
			// between its snapshot and its apply step (the hook runs inside the poll's first request)
			name := ev.Name
			if name != "c1" && name != "c2" {
				name = "c1"
			}
			if known[name] {
				continue
			}
			taken := false
			svc.ResetCount()
			svc.OnRequest = func(n int, _ string) {
				if n != 1 || taken {
					return
				}
				taken = true
				// obtained from another goroutine under a watchdog: code that holds the store's lock
				// across this request would otherwise dead-lock the poll against itself
				got := make(chan setec.Secret, 1)
				go func() { got <- st.Secret(name) }()
				select {
				case hd := <-got:
					if hd != nil && firstInstall(name, hd) {
						known[name] = true
						hmu.Lock()
						handles = append(handles, namedHandle{name, hd})
						hmu.Unlock()
						info.Class("handle-taken-during-poll")
					}
				case <-time.After(5 * time.Second):
					fail("never-waits-for-the-service", "obtaining a handle did not complete within 5s (real time) while a poll request was outstanding")
				}
			}
			clock.Advance(11)
			doPoll(true)
			svc.OnRequest = nil
		case "parked-lookup":
			if closed {
				continue
			}
			name := ""
			for _, n := range []string{c12U1, c12U2, c12U3} {
				if !known[n] {
					name = n
					break
				}
			}
			if name == "" {
				continue
			}
			svc.SetScript(name, []fake.Beh{{Kind: "hang"}})
			ctx, cancel := context.WithCancel(context.Background())
			pdone := make(chan struct{})
			l0 := svc.LogLen()
			go func() { st.LookupSecret(ctx, name); close(pdone) }()
			for i := 0; i < 2000 && svc.LogLen() == l0; i++ {
				time.Sleep(50 * time.Microsecond)
			}
			parkedReads("a lookup request is outstanding")
			cancel()
			<-pdone
			svc.SetScript(name, nil)
			info.Class("reads-while-lookup-parked")
		}
	}
	// let readers run a little after the last event, then stop
	time.Sleep(100 * time.Microsecond)
	close(stop)
	readersDone := make(chan struct{})
	go func() { wg.Wait(); close(readersDone) }()
	select {
	case <-readersDone:
	case <-time.After(20 * time.Second):
		return h.V("never-waits-for-the-service", "20 s after the last event a reader is still inside a handle call (closed=%v): a handle call never returned", closed), info
	}
	if b := bad.Load(); b != nil {
		return b.(*h.Violation), info
	}
	// final: after everything (possibly after Close) every handle still yields the installed value
	hmu.Lock()
	defer hmu.Unlock()
	for _, nh := range idle {
		// never read since it was obtained - through polls, expiry sweeps and possibly Close
		var b []byte
		if v := h.Safely(func() *h.Violation { b = nh.h.Get(); return nil }); v != nil {
			return h.V("never-panics", "a handle of %q that had been idle since it was obtained panicked when finally called (closed=%v): %s", nh.name, closed, v.Detail), info
		}
		if n, ver, ok := parseFor(nh.name, b); !ok || n != nh.name || !svc.EverActive(n, ver, b) {
			return h.V("complete-really-served-value", "idle handle of %q yields %q", nh.name, b), info
		}
	}
	for _, nh := range handles {
		var b []byte
		if v := h.Safely(func() *h.Violation { b = nh.h.Get(); return nil }); v != nil {
			return h.V("never-panics", "handle of %q panicked at the end: %s", nh.name, v.Detail), info
		}
		imu.RLock()
		seq := installs[nh.name]
		imu.RUnlock()
		want := seq[ackOf(nh.name).Load()]
		okTail := false
		_, ver, ok := parseFor(nh.name, b)
		for j := int(ackOf(nh.name).Load()); j < len(seq); j++ {
			if seq[j] == ver {
				okTail = true
			}
		}
		if !ok || !okTail {
			return h.V("completed-poll-is-visible", "at the end handle of %q yields %q; the last acknowledged install is version %d (install sequence %v)", nh.name, b, want, seq), info
		}
	}
	info.NonTrivial = overlapped.Load() > 0
	if info.NonTrivial {
		info.Class("reads-overlapped-an-install")
	}
	return nil, info
}

func genHandleCase(rt *rapid.T) HandleCase {
	c := HandleCase{Readers: rapid.IntRange(2, 8).Draw(rt, "readers"), Yield: rapid.SampledFrom([]int{0, 1, 3, 17}).Draw(rt, "yield"), OddCache: rapid.SampledFrom([]int{0, 0, 0, 0, 1, 2, 3}).Draw(rt, "oddcache")}
	c.Events = rapid.SliceOfN(rapid.Custom(func(rt *rapid.T) HEvent {
		return HEvent{
			Back: rapid.IntRange(0, 3).Draw(rt, "back") == 0,
			Kind: rapid.SampledFrom([]string{"set", "set", "set", "poll", "poll", "refresh", "failed-poll", "clock-back", "lookup", "expire", "yield", "yield", "parked-poll", "parked-lookup", "handle-during-poll", "joiner-timeout", "double-lookup", "idle-handle", "leader-cancelled", "close"}).Draw(rt, "kind"),
			Name: rapid.SampledFrom([]string{"d1", "d1", "d2", c12U1, c12U2, c12U3, "c1", "c2"}).Draw(rt, "name"),
		}
	}), h.LenBias(rt, 3, 30), 30).Draw(rt, "events")
	return c
}

var c12 = &h.Campaign[HandleCase]{
	Prop: "C12", Sub: "handles",
	Rule: "rapid, under the race detector: 2-8 reader goroutines spin over every handle (declared ones and ones published by lookups) while a driver executes 3-30 generated events: service change, poll through the store's poller, explicit Refresh, lookup of a new name, expiry sweep (clock jump + poll), Close, two overlapping lookups of different unknown names (the first parked at the service), a handle that is obtained and then left untouched until the very end, and 'parked' polls/lookups during which the service holds the request while all handles are read under a 5 s real-time watchdog; values are self-describing (name#version#padding of version-dependent length); per read: parses as a value the service served for that name, per reader versions never go backwards, a version whose installing poll was acknowledged before the read is the minimum; the undeclared names are path variants of one another (u/k, u//k, u/./k: three secrets); non-trivial = reads overlapped an install (counted from an 'installing' flag sampled around each read); distinct by (scenario, run) because schedules are sampled",
	Quick: 1200, Thorough: 150000,
	Gen:   genHandleCase,
	Run:   runC12,
	Key:   func(c HandleCase) any { return fmt.Sprintf("%v/%d", c, nonce.Add(1)) },
}

func init() { c12.Register() }

func TestC12RaceHandles(t *testing.T) { c12.Check(t) }

// waitInFlight waits (real time, generously: the race detector and busy readers slow everything
// down) until a request for name is being served.
// waitInFlightOr is waitInFlight for a request made by a poll whose result arrives on done: it also
// ends when the poll has returned without ever asking for name ("returned", with the poll's result).
func waitInFlightOr(svc *fake.Svc, name string, done chan error) (string, error) {
	for end := time.Now().Add(20 * time.Second); time.Now().Before(end); {
		if svc.InFlight(name) > 0 {
			return "inflight", nil
		}
		select {
		case err := <-done:
			return "returned", err
		default:
		}
		time.Sleep(25 * time.Microsecond)
	}
	return "timeout", nil
}

func waitInFlight(svc *fake.Svc, name string) bool {
	for end := time.Now().Add(20 * time.Second); time.Now().Before(end); {
		if svc.InFlight(name) > 0 {
			return true
		}
		time.Sleep(25 * time.Microsecond)
	}
	return false
}
