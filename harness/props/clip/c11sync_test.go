package clip

import (
	"context"
	"errors"
	"fmt"
	"sort"
	"testing"
	"testing/synctest"
	"time"

	"github.com/tailscale/setec/client/setec"
	"pgregory.net/rapid"
	"verifharness/fake"
	"verifharness/h"
)

// ---- C11 (virtual time): overlapping refreshes coalesce; background cadence ----

type CoalesceCase struct {
	Names    []string `json:"names"`
	Callers  int      `json:"callers"`   // overlapping Refresh calls
	DelayMs  int      `json:"delay_ms"`  // how long the service takes per request
	StaggerMs []int   `json:"stagger_ms"` // start offsets of the callers (all within the first request)
	Changed  []string `json:"changed"`   // names with a new version at the service
	Ticker   bool     `json:"ticker"`    // one of the overlapping polls is the store's own background poll
	DeadlineMs []int  `json:"deadline_ms"` // per caller (index mod len): >0 = that Refresh carries a deadline this long (+37us); it may expire while the flight is still running
	CancelMs int      `json:"cancel_after"` // >0: the context of caller 0 (started first, alone) is cancelled right after the n-th request of the poll was answered, i.e. between two requests
}

func (c CoalesceCase) deadline(i int) int {
	if len(c.DeadlineMs) == 0 || i == 0 {
		return 0 // only joiners carry deadlines: the starter's context governs the whole flight
	}
	return c.DeadlineMs[i%len(c.DeadlineMs)]
}

func runCoalesce(t *testing.T, c CoalesceCase) (v *h.Violation, info h.Info) {
	synctest.Test(t, func(t *testing.T) {
		svc := fake.NewSvc()
		uniq := map[string]bool{}
		for _, n := range c.Names {
			uniq[n] = true
			svc.Set(n, 1, valueOf(n, 1))
		}
		cfg := setec.StoreConfig{Client: svc, Secrets: append([]string{}, c.Names...), PollInterval: -1, Logf: nolog}
		var tick *chanTicker
		if c.Ticker {
			tick = newChanTicker()
			cfg.PollTicker = tick
			cfg.PollInterval = 0
		}
		st, err := setec.NewStore(context.Background(), cfg)
		if err != nil {
			v = h.V("harness", "NewStore: %v", err)
			return
		}
		defer st.Close()
		for _, n := range c.Changed {
			if uniq[n] {
				svc.Set(n, 2, valueOf(n, 2))
			}
		}
		for n := range uniq {
			svc.SetDefault(n, fake.Beh{Kind: "ok", DelayMs: c.DelayMs})
		}
		l0 := svc.LogLen()
		errs := make([]error, c.Callers)
		done := make(chan int, c.Callers)
		for i := 0; i < c.Callers; i++ {
			go func() {
				if i != 0 {
					// caller 0 always starts the flight (at instant 0); everybody else joins strictly later
					time.Sleep(time.Duration(c.StaggerMs[i%len(c.StaggerMs)])*time.Millisecond + 100*time.Microsecond)
				}
				if c.Ticker && i == 0 {
					tick.Poll() // the background poller's own poll
				} else if i == 0 && c.CancelMs > 0 {
					ctx, cancel := context.WithCancel(context.Background())
					svc.ResetCount()
					svc.OnAnswered = func(n int, _ string) {
						if n == c.CancelMs {
							cancel()
						}
					}
					errs[i] = st.Refresh(ctx)
					cancel()
				} else if dl := c.deadline(i); dl > 0 {
					ctx, cancel := context.WithTimeout(context.Background(), time.Duration(dl)*time.Millisecond+37*time.Microsecond)
					errs[i] = st.Refresh(ctx)
					cancel()
				} else {
					errs[i] = st.Refresh(context.Background())
				}
				done <- i
			}()
		}
		for i := 0; i < c.Callers; i++ {
			<-done
		}
		reqs := svc.Log()[l0:]
		per := map[string]int{}
		for _, r := range reqs {
			per[r.Name]++
		}
		cancelled := c.CancelMs > 0 && !c.Ticker
		okCallers := 0
		for i, e := range errs {
			if e != nil && c.deadline(i) > 0 && errors.Is(e, context.DeadlineExceeded) {
				info.Class("a-joiner-timed-out-mid-flight")
				continue // this caller's own deadline; the others must not notice
			}
			if e != nil && !cancelled {
				v = h.V("overlapping-refreshes-coalesce", "Refresh %d failed: %v", i, e)
				return
			}
			if e == nil && !(c.Ticker && i == 0) {
				okCallers++
			}
		}
		if cancelled {
			// the flight's starter was cancelled mid-poll: joiners may fail, but a Refresh that
			// returned nil promises fresh values for every known secret
			info.Class("starter-cancelled-mid-poll")
			if okCallers > 0 {
				for n := range uniq {
					want := uint32(1)
					for _, ch := range c.Changed {
						if ch == n {
							want = 2
						}
					}
					if got := string(st.Secret(n).Get()); got != string(valueOf(n, want)) {
						v = h.V("fresh-after-successful-poll", "a Refresh coalesced onto a poll whose starter was cancelled returned nil, yet %q yields %q (service has version %d)", n, got, want)
						return
					}
				}
				info.Class("joiner-succeeded-after-starter-cancelled")
			}
			info.NonTrivial = true
			return
		}
		for n := range uniq {
			if per[n] != 1 {
				v = h.V("overlapping-refreshes-coalesce", "%d overlapping Refresh calls caused %d requests for %q (all requests: %d for %d names)", c.Callers, per[n], n, len(reqs), len(uniq))
				return
			}
			want := uint32(1)
			for _, ch := range c.Changed {
				if ch == n {
					want = 2
				}
			}
			if got := string(st.Secret(n).Get()); got != string(valueOf(n, want)) {
				v = h.V("fresh-after-successful-poll", "after the coalesced refresh %q yields %q, want version %d", n, got, want)
				return
			}
		}
		info.NonTrivial = c.Callers >= 2
		info.Class(fmt.Sprintf("callers-%d", c.Callers))
		if c.Ticker && c.Callers >= 2 {
			info.Class("background-poll-overlaps-refresh")
		}
	})
	return
}

var c11coalesce = &h.Campaign[CoalesceCase]{
	Prop: "C11", Sub: "coalesce",
	Rule: "rapid + synctest: k (1-6) polls - explicit Refresh calls and, in half the cases, one poll of the store's own background poller - started within the first request of a poll whose requests each take a generated time; the service must see exactly one conditional get per known name and every caller must see the new values; non-trivial = k >= 2; distinct by scenario",
	Quick: 600, Thorough: 200000,
	Gen: func(rt *rapid.T) CoalesceCase {
		d := rapid.SampledFrom([]int{5, 50, 1000}).Draw(rt, "delay")
		return CoalesceCase{
			Names:     rapid.SliceOfN(rapid.SampledFrom([]string{"a", "b", "c", "d"}), 1, 5).Draw(rt, "names"),
			Callers:   rapid.IntRange(1, 6).Draw(rt, "callers"),
			DelayMs:   d,
			StaggerMs: rapid.SliceOfN(rapid.IntRange(0, d-1), 1, 6).Draw(rt, "stagger"),
			DeadlineMs: rapid.SliceOfN(rapid.SampledFrom([]int{0, 0, 0, d / 2, d, 2 * d}), 0, 6).Draw(rt, "deadlines"),
			Changed:   rapid.SliceOfN(rapid.SampledFrom([]string{"a", "b", "c", "d"}), 0, 3).Draw(rt, "changed"),
			Ticker:    rapid.Bool().Draw(rt, "ticker"),
			CancelMs:  rapid.SampledFrom([]int{0, 0, 0, 1, 1, 2}).Draw(rt, "cancelafter"),
		}
	},
	Run: runCoalesce,
}

type CadenceCase struct {
	IntervalMs int `json:"interval_ms"`
	Polls      int `json:"polls"`
	SlowPct    int `json:"slow_pct"` // every poll request takes this percentage of the interval (0 = instant)
	// nothing is declared: the store starts empty (lookups allowed) and learns its only secret through
	// a lookup a little later - which is then polled like any other
	LookupOnly bool `json:"lookup_only,omitempty"`
	// the context given to NewStore (documented as governing construction only) is "deadline": it
	// carried a deadline that passes a third of an interval later, "cancel": it is cancelled as soon
	// as NewStore has returned; "" = background
	InitCtx string `json:"init_ctx,omitempty"`
}

func runCadence(t *testing.T, c CadenceCase) (v *h.Violation, info h.Info) {
	synctest.Test(t, func(t *testing.T) {
		svc := fake.NewSvc()
		svc.Set("a", 1, valueOf("a", 1))
		interval := time.Duration(c.IntervalMs) * time.Millisecond
		if c.SlowPct > 0 {
			defer func() {
				if v == nil {
					info.Class("polls-take-a-while")
				}
			}()
		}
		t0 := time.Now()
		cfg := setec.StoreConfig{Client: svc, Secrets: []string{"a"}, PollInterval: interval, Logf: nolog}
		if c.LookupOnly {
			cfg.Secrets, cfg.AllowLookup = nil, true
		}
		ictx, icancel := context.Background(), context.CancelFunc(func() {})
		switch c.InitCtx {
		case "deadline":
			ictx, icancel = context.WithTimeout(ictx, interval/3)
		case "cancel":
			ictx, icancel = context.WithCancel(ictx)
		}
		defer icancel()
		st, err := setec.NewStore(ictx, cfg)
		if err != nil {
			v = h.V("harness", "NewStore: %v", err)
			return
		}
		if c.InitCtx == "cancel" {
			icancel()
		}
		if c.InitCtx != "" {
			defer func() {
				if v == nil {
					info.Class("construction-context-ended-after-newstore-returned")
				}
			}()
		}
		if c.LookupOnly {
			time.Sleep(interval / 7)
			if _, err := st.LookupSecret(context.Background(), "a"); err != nil {
				v = h.V("harness", "lookup: %v", err)
				return
			}
			defer func() {
				if v == nil {
					info.Class("store-without-declared-secrets")
				}
			}()
		}
		if c.SlowPct > 0 {
			svc.SetDefault("a", fake.Beh{Kind: "ok", DelayMs: c.IntervalMs * c.SlowPct / 100})
		}
		l0 := svc.LogLen()
		time.Sleep(time.Duration(float64(interval)*1.1*float64(c.Polls)) + interval/2)
		synctest.Wait()
		st.Close()
		var at []time.Duration
		for _, r := range svc.Log()[l0:] {
			at = append(at, r.At-time.Duration(0))
		}
		_ = t0
		sort.Slice(at, func(i, j int) bool { return at[i] < at[j] })
		if len(at) < c.Polls {
			v = h.V("background-polls-once-per-interval", "interval %v: only %d polls in %v", interval, len(at), time.Duration(float64(interval)*1.1*float64(c.Polls))+interval/2)
			return
		}
		lo, hi := time.Duration(float64(interval)*0.9), time.Duration(float64(interval)*1.1)
		p := at[0]
		if p < lo || p > hi {
			v = h.V("background-polls-once-per-interval", "interval %v: first poll %v after start, outside [%v,%v]", interval, p, lo, hi)
			return
		}
		for i := 1; i < len(at); i++ {
			if g := at[i] - at[i-1]; g != p {
				v = h.V("background-polls-once-per-interval", "interval %v: poll %d came %v after the previous one, the first period was %v", interval, i, g, p)
				return
			}
		}
		info.NonTrivial = true
		if p != interval {
			info.Class("jittered")
		}
	})
	return
}

var c11cadence = &h.Campaign[CadenceCase]{
	Prop: "C11", Sub: "cadence",
	Rule: "rapid + synctest: the store's own ticker under virtual time for generated intervals (20 ms - 3 h), 2-8 polls, poll requests that are instant or take 20-60 % of the interval; one case in four starts a store without any declared secret, which learns its secret through a lookup a little later; poll instants must be t0 + k*p with one p in [0.9*I, 1.1*I]; every case is non-trivial; distinct by (interval, polls)",
	Quick: 300, Thorough: 100000,
	Gen: func(rt *rapid.T) CadenceCase {
		return CadenceCase{IntervalMs: rapid.OneOf(rapid.IntRange(20, 5000), rapid.IntRange(5000, 10800000)).Draw(rt, "interval"), Polls: rapid.IntRange(2, 8).Draw(rt, "polls"),
			SlowPct: rapid.SampledFrom([]int{0, 0, 20, 35, 60}).Draw(rt, "slowpct"), LookupOnly: rapid.IntRange(0, 3).Draw(rt, "lookuponly") == 0,
			InitCtx: rapid.SampledFrom([]string{"", "", "deadline", "cancel"}).Draw(rt, "initctx")}
	},
	Run: runCadence,
}

func init() { c11coalesce.Register(); c11cadence.Register() }

func TestC11Coalesce(t *testing.T) { c11coalesce.Check(t) }
func TestC11Cadence(t *testing.T)  { c11cadence.Check(t) }
