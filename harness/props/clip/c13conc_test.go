package clip

import (
	"bytes"
	"context"
	"fmt"
	"sync/atomic"
	"testing"
	"time"

	"github.com/tailscale/setec/client/setec"
	"pgregory.net/rapid"
	"verifharness/fake"
	"verifharness/h"
	"verifharness/model"
)

// ---- C13 (concurrent): a slow cache write must not be overtaken by a newer document --------

type StallCase struct {
	Second  string `json:"second"`   // what happens while the lookup's cache write is stalled: refresh | lookup
	StallMs int    `json:"stall_ms"` // how long the stalled write waits for the other party at most
	Extra   int    `json:"extra"`    // further secrets looked up beforehand (0-2)
}

func runC13Stall(t *testing.T, c StallCase) (*h.Violation, h.Info) {
	var info h.Info
	svc := fake.NewSvc()
	for _, n := range []string{"d1", "u1", "u2", "x0", "x1"} {
		svc.Set(n, 1, valueOf(n, 1))
	}
	cache := fake.NewCache(nil)
	st, err := setec.NewStore(context.Background(), setec.StoreConfig{Client: svc, Secrets: []string{"d1"}, AllowLookup: true, Cache: cache, PollInterval: -1, Logf: nolog})
	if err != nil {
		return h.V("harness", "NewStore: %v", err), info
	}
	defer st.Close()
	want := map[string]uint32{"d1": 1}
	for i := 0; i < c.Extra; i++ {
		n := fmt.Sprintf("x%d", i)
		if _, err := st.LookupSecret(context.Background(), n); err != nil {
			return h.V("harness", "lookup: %v", err), info
		}
		want[n] = 1
	}
	// the next cache write (the one of the lookup of u1) stalls until the second party is done, or gives up waiting
	inWrite, otherDone := make(chan struct{}), make(chan struct{})
	var stalled, overtaken atomic.Bool
	cache.OnWrite = func(int) {
		if stalled.CompareAndSwap(false, true) {
			close(inWrite)
			select {
			case <-otherDone:
				overtaken.Store(true)
			case <-time.After(time.Duration(c.StallMs) * time.Millisecond):
			}
		}
	}
	svc.Set("d1", 2, valueOf("d1", 2)) // a change the refresh will install
	firstDone := make(chan error, 1)
	go func() {
		_, err := st.LookupSecret(context.Background(), "u1")
		firstDone <- err
	}()
	select {
	case <-inWrite:
	case <-time.After(5 * time.Second):
		return h.V("written-after-lookup", "the lookup did not write the cache within 5s"), info
	}
	var secondErr error
	go func() {
		defer close(otherDone)
		if c.Second == "refresh" {
			secondErr = st.Refresh(context.Background())
		} else {
			_, secondErr = st.LookupSecret(context.Background(), "u2")
		}
	}()
	if err := <-firstDone; err != nil {
		return h.V("harness", "lookup u1: %v", err), info
	}
	<-otherDone
	if secondErr != nil {
		return h.V("harness", "%s: %v", c.Second, secondErr), info
	}
	want["u1"] = 1
	if c.Second == "refresh" {
		want["d1"] = 2
	} else {
		want["u2"] = 1
	}
	// everything has returned: the cache must hold every known secret at its latest version
	doc, err := model.DecodeCacheStrict(cache.Data())
	if err != nil {
		return h.V("one-complete-document", "final cache document: %v", err), info
	}
	for n, v := range want {
		e, ok := doc[n]
		if !ok {
			return h.V("document-lists-every-known-secret", "after a lookup (slow cache write) overlapped by a %s, the cache lacks %q: %q", c.Second, n, cache.Data()), info
		}
		if e.Version != v || !bytes.Equal(e.Value, valueOf(n, v)) {
			return h.V("document-holds-latest-version-and-bytes", "after a lookup (slow cache write) overlapped by a %s, the cache holds %q at version %d, the store serves version %d", c.Second, n, e.Version, v), info
		}
	}
	info.NonTrivial = true
	info.Class("second-" + c.Second)
	if overtaken.Load() {
		info.Class("second-party-finished-while-the-write-was-stalled")
	}
	return nil, info
}

var c13stall = &h.Campaign[StallCase]{
	Prop: "C13", Sub: "slow-write",
	Rule: "rapid: a lookup whose cache Write is held (up to 5-40 ms of real time) while a Refresh that installs a new version, or a second lookup, runs in another goroutine; when all calls have returned the cache document must list every known secret at the version the store serves (a write that was computed earlier must not land after a newer one); every case is non-trivial; distinct by (scenario, run)",
	Quick: 60, Thorough: 3000,
	Gen: func(rt *rapid.T) StallCase {
		return StallCase{Second: rapid.SampledFrom([]string{"refresh", "lookup"}).Draw(rt, "second"), StallMs: rapid.SampledFrom([]int{5, 15, 40}).Draw(rt, "stall"), Extra: rapid.IntRange(0, 2).Draw(rt, "extra")}
	},
	Run: runC13Stall,
	Key: func(c StallCase) any { return fmt.Sprintf("%v/%d", c, nonce.Add(1)) },
}

func init() { c13stall.Register() }

func TestC13SlowWrite(t *testing.T) { c13stall.Check(t) }
