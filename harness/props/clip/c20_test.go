package clip

import (
	"bytes"
	"context"
	"encoding/json"
	"errors"
	"fmt"
	"path"
	"reflect"
	"strings"
	"testing"
	"time"

	"github.com/tailscale/setec/client/setec"
	"pgregory.net/rapid"
	"verifharness/fake"
	"verifharness/h"
)

// ---- C20: struct-tag plumbing ------------------------------------------------------

// binVal implements encoding.BinaryUnmarshaler on the pointer receiver.
type binVal struct{ Got []byte }

func (b *binVal) UnmarshalBinary(data []byte) error {
	if bytes.HasPrefix(data, []byte("REJECT")) {
		return errors.New("binVal rejects this value")
	}
	b.Got = append([]byte{}, data...)
	return nil
}

type jsonVal struct {
	A int               `json:"a"`
	B []byte            `json:"b"`
	M map[string]string `json:"m"`
}

// Embedded is an embedded struct with tagged fields (exported so reflect.StructOf accepts it).
type Embedded struct {
	EmbBytes []byte `setec:"emb-bytes"`
	EmbStr   string `setec:"emb-str"`
	EmbPlain int
	Deeper   // promoted from two and three levels down: as visible as any other field
}

type Deeper struct {
	DeepStr string `setec:"deep-str"`
	Deepest
}

type Deepest struct {
	DeepestBytes []byte `setec:"deepest-bytes"`
	DeepestPlain int
}

type FieldSpec struct {
	Kind string `json:"kind"` // bytes string secret bin binptr json-struct json-map json-int untagged-int untagged-bytes untagged-str embedded bad-int bad-float bad-chan empty-tag
	Tag  string `json:"tag"`  // secret base name
	Val  []byte `json:"val"`  // what the service serves for it
}

type StructCase struct {
	Prefix   string      `json:"prefix"`
	Fields   []FieldSpec `json:"fields"`
	ArgKind  string      `json:"arg"`  // ptr-struct | struct | ptr-int | nil-map
	ViaApply bool        `json:"via_apply"`
	Scribble bool        `json:"scribble"`
	// Wire: the store talks to the service through the real setec.Client (client.go's encoding and
	// status handling) instead of calling the fake directly
	Wire bool `json:"wire,omitempty"`
}

var (
	tBytes  = reflect.TypeOf([]byte(nil))
	tString = reflect.TypeOf("")
	tSecret = reflect.TypeOf(setec.Secret(nil))
	tBin    = reflect.TypeOf(binVal{})
	tBinPtr = reflect.TypeOf(&binVal{})
	tJSON   = reflect.TypeOf(jsonVal{})
	tMap    = reflect.TypeOf(map[string]int(nil))
	tInt    = reflect.TypeOf(int(0))
	tFloat  = reflect.TypeOf(float64(0))
	tChan   = reflect.TypeOf((chan int)(nil))
	tEmb    = reflect.TypeOf(Embedded{})
)

func fieldType(kind string) reflect.Type {
	switch kind {
	case "bytes", "untagged-bytes":
		return tBytes
	case "string", "untagged-str", "empty-tag":
		return tString
	case "secret":
		return tSecret
	case "bin":
		return tBin
	case "binptr", "untagged-binptr", "json-binptr":
		return tBinPtr
	case "json-struct":
		return tJSON
	case "json-map":
		return tMap
	case "json-int", "untagged-int", "bad-int":
		return tInt
	case "bad-float":
		return tFloat
	case "bad-chan":
		return tChan
	case "embedded":
		return tEmb
	}
	panic(kind)
}

func isBad(kind string) bool { return strings.HasPrefix(kind, "bad-") || kind == "empty-tag" }
func isTagged(kind string) bool {
	return !strings.HasPrefix(kind, "untagged-") && kind != "embedded"
}

func runC20(t *testing.T, c StructCase) (v *h.Violation, info h.Info) {
	svc := fake.NewSvc()
	svc.Set("plain", 1, []byte("plain-value"))
	// build the struct type
	var sf []reflect.StructField
	var wantNames []string
	served := map[string][]byte{}
	full := func(tag string) string { return path.Join(c.Prefix, tag) }
	hasEmb, anyBad, kinds := false, false, map[string]bool{}
	tagged := 0
	fieldIdx := make([]int, len(c.Fields))
	for i, f := range c.Fields {
		fld := reflect.StructField{Name: fmt.Sprintf("F%d", i), Type: fieldType(f.Kind)}
		fieldIdx[i] = len(sf)
		switch {
		case f.Kind == "embedded":
			if hasEmb {
				fieldIdx[i] = -1
				continue
			}
			hasEmb = true
			fld.Name, fld.Anonymous = "Embedded", true
			wantNames = append(wantNames, full("emb-bytes"), full("emb-str"), full("deep-str"), full("deepest-bytes"))
			served[full("emb-bytes")], served[full("emb-str")] = []byte("EB:"+string(f.Val)), []byte("ES:"+string(f.Val))
			served[full("deep-str")], served[full("deepest-bytes")] = []byte("DS:"+string(f.Val)), []byte("DB:"+string(f.Val))
			tagged += 4
		case f.Kind == "empty-tag":
			fld.Tag = `setec:""`
			anyBad = true
		case strings.HasPrefix(f.Kind, "json-"):
			fld.Tag = reflect.StructTag(fmt.Sprintf(`setec:"%s,json"`, f.Tag))
			wantNames = append(wantNames, full(f.Tag))
			tagged++
		case isTagged(f.Kind):
			fld.Tag = reflect.StructTag(fmt.Sprintf(`setec:"%s"`, f.Tag))
			wantNames = append(wantNames, full(f.Tag))
			tagged++
			if isBad(f.Kind) {
				anyBad = true
			}
		}
		kinds[f.Kind] = true
		sf = append(sf, fld)
	}
	// values per tagged field (later fields with the same tag win at the service; all fields with that tag see the same bytes)
	for _, f := range c.Fields {
		if f.Kind == "embedded" || !isTagged(f.Kind) || f.Kind == "empty-tag" {
			continue
		}
		val := f.Val
		switch f.Kind {
		case "json-struct":
			if !bytes.HasPrefix(val, []byte("BAD")) {
				val, _ = json.Marshal(jsonVal{A: len(f.Val), B: f.Val, M: map[string]string{"k": string(bytes.ToValidUTF8(f.Val, nil))}})
			}
		case "json-map":
			if !bytes.HasPrefix(val, []byte("BAD")) {
				val = []byte(fmt.Sprintf(`{"n":%d}`, len(f.Val)))
			}
		case "json-int":
			if !bytes.HasPrefix(val, []byte("BAD")) {
				val = []byte(fmt.Sprint(len(f.Val)))
			}
		case "json-binptr":
			// a pointer field whose type ALSO implements BinaryUnmarshaler: the json verb decides
			if !bytes.HasPrefix(val, []byte("BAD")) {
				val, _ = json.Marshal(binVal{Got: f.Val})
			}
		}
		if strings.HasPrefix(f.Kind, "json-") && bytes.HasPrefix(f.Val, []byte("TRAIL")) {
			// a complete JSON value followed by something else: not a JSON document
			val = append(val, [][]byte{[]byte(` {"x":2}`), []byte(" # note"), []byte("\n7"), []byte("]")}[len(f.Val)%4]...)
		}
		if _, dup := served[full(f.Tag)]; !dup {
			served[full(f.Tag)] = val
		}
	}
	for n, b := range served {
		svc.Set(n, 3, b)
	}
	var arg any
	var sv reflect.Value
	switch c.ArgKind {
	case "struct", "ptr-int", "nil-map":
		info.Class("non-pointer-to-struct-argument")
		x := 5
		arg = map[string]any{"struct": struct{ A []byte }{}, "ptr-int": &x, "nil-map": map[string]int(nil)}[c.ArgKind]
	default:
		func() {
			defer func() {
				if r := recover(); r != nil {
					v = h.V("harness", "reflect.StructOf: %v", r)
				}
			}()
			sv = reflect.New(reflect.StructOf(sf))
		}()
		if v != nil {
			return nil, info // shape not constructible at run time: skip
		}
		arg = sv.Interface()
		// sentinels in untagged fields
		for i := 0; i < sv.Elem().NumField(); i++ {
			ft := sv.Elem().Type().Field(i)
			switch {
			case ft.Type == tInt && ft.Tag == "":
				sv.Elem().Field(i).SetInt(424242)
			case ft.Type == tBytes && ft.Tag == "":
				sv.Elem().Field(i).SetBytes([]byte("sentinel"))
			case ft.Type == tString && ft.Tag == "":
				sv.Elem().Field(i).SetString("sentinel")
			case ft.Anonymous:
				sv.Elem().Field(i).FieldByName("EmbPlain").SetInt(777)
				sv.Elem().Field(i).FieldByName("DeepestPlain").SetInt(888)
			}
		}
	}
	expectReject := c.ArgKind != "ptr-struct" || anyBad || tagged == 0
	// which fields must fail to decode
	failing := map[int]bool{}
	for i, f := range c.Fields {
		b := served[full(f.Tag)]
		switch f.Kind {
		case "bin", "binptr":
			if bytes.HasPrefix(b, []byte("REJECT")) {
				failing[i] = true
			}
		case "json-struct", "json-map", "json-int", "json-binptr":
			var probe any
			switch f.Kind {
			case "json-binptr":
				probe = &binVal{}
			case "json-struct":
				probe = &jsonVal{}
			case "json-map":
				probe = &map[string]int{}
			default:
				probe = new(int)
			}
			if json.Unmarshal(b, probe) != nil {
				failing[i] = true
			}
		}
	}
	var st *setec.Store
	var err error
	var fsFirst *setec.Fields
	l0 := svc.LogLen()
	if c.ViaApply {
		info.Class("via-apply")
		st, err = setec.NewStore(context.Background(), setec.StoreConfig{Client: storeClient(svc, c.Wire), Secrets: []string{"plain"}, AllowLookup: true, PollInterval: -1, Logf: nolog})
		if err != nil {
			return h.V("harness", "NewStore: %v", err), info
		}
		defer st.Close()
		l0 = svc.LogLen()
		var fs *setec.Fields
		fs, err = setec.ParseFields(arg, c.Prefix)
		fsFirst = fs
		if err == nil {
			if got := fs.Secrets(); !reflect.DeepEqual(got, wantNames) && !(len(got) == 0 && len(wantNames) == 0) {
				return h.V("requested-names-are-prefix-slash-name", "Fields.Secrets() = %q, want %q (prefix %q)", got, wantNames, c.Prefix), info
			}
			err = fs.Apply(context.Background(), st)
		} else if !expectReject {
			return h.V("supported-shapes-accepted", "ParseFields rejected a supported shape: %v", err), info
		}
	} else {
		info.Class("via-newstore")
		// a bounded context: a shape that is wrongly accepted may name a secret the service does not have,
		// and NewStore would then retry in real time for ever
		nctx, ncancel := context.WithTimeout(context.Background(), 1500*time.Millisecond)
		scfg := setec.StoreConfig{Client: storeClient(svc, c.Wire), Structs: []setec.Struct{{Value: arg, Prefix: c.Prefix}}, PollInterval: -1, Logf: nolog}
		if c.Scribble && len(c.Fields)%2 == 0 {
			// another source of declared secrets next to the struct: an unusable struct must still be rejected
			scfg.Secrets = []string{"plain"}
			wantNames = append(wantNames, "plain")
			info.Class("struct-plus-listed-secret")
		}
		st, err = setec.NewStore(nctx, scfg)
		ncancel()
		if st != nil {
			defer st.Close()
		}
	}
	reqs := svc.Log()[l0:]
	if expectReject {
		info.Class("rejected-shape")
		if err == nil {
			return h.V("unsupported-shapes-rejected-up-front", "argument kind %s, fields %+v: accepted", c.ArgKind, c.Fields), info
		}
		if len(reqs) != 0 {
			return h.V("unsupported-shapes-rejected-up-front", "an unsupported shape caused %d requests before being rejected", len(reqs)), info
		}
		info.NonTrivial = true
		return nil, info
	}
	// requested exactly the declared set
	asked := map[string]bool{}
	for _, r := range reqs {
		asked[r.Name] = true
	}
	wantSet := map[string]bool{}
	for _, n := range wantNames {
		wantSet[n] = true
	}
	for n := range asked {
		if !wantSet[n] {
			return h.V("requested-names-are-prefix-slash-name", "the service was asked for %q; tagged names are %q", n, wantNames), info
		}
	}
	for n := range wantSet {
		if !asked[n] {
			return h.V("requested-names-are-prefix-slash-name", "the service was never asked for %q (asked: %v)", n, asked), info
		}
	}
	if len(failing) > 0 {
		info.Class("one-field-fails")
		if err == nil {
			return h.V("field-failure-is-reported", "fields %v cannot be decoded, yet no error was reported", failing), info
		}
		if len(failing) >= 2 {
			info.Class("several-fields-fail")
		}
		for i := range failing {
			if name := full(c.Fields[i].Tag); !strings.Contains(err.Error(), fmt.Sprintf("%q", name)) {
				return h.V("field-failure-is-reported", "%d fields fail (%v); the reported error does not mention the failure of %q: %v", len(failing), failing, name, err), info
			}
		}
		if !c.ViaApply {
			// NewStore fails as a whole; the struct is not guaranteed to be filled
			return nil, info
		}
	} else if err != nil {
		return h.V("supported-shapes-accepted", "populate failed: %v", err), info
	}
	// every field holds its value
	el := sv.Elem()
	for i, f := range c.Fields {
		if fieldIdx[i] < 0 {
			continue // a second embedded struct was skipped when building the type
		}
		fv := el.Field(fieldIdx[i])
		b := served[full(f.Tag)]
		bad := func(format string, args ...any) (*h.Violation, h.Info) {
			return h.V("field-holds-current-value", "field %d (%s, tag %q): %s", i, f.Kind, f.Tag, fmt.Sprintf(format, args...)), info
		}
		if failing[i] {
			continue
		}
		switch f.Kind {
		case "bytes":
			got := fv.Bytes()
			if !bytes.Equal(got, b) {
				return bad("holds %q, want %q", got, b)
			}
			if c.Scribble && len(got) > 0 {
				for j := range got {
					got[j] ^= 0x5a
				}
				if now := st.Secret(full(f.Tag)).Get(); !bytes.Equal(now, b) {
					v := h.V("bytes-field-is-a-private-copy", "after overwriting the populated []byte field, the store serves %q for %q instead of %q", now, full(f.Tag), b)
					return v, info
				}
				info.Class("scribbled-bytes-field")
			}
		case "string":
			if fv.String() != string(b) {
				return bad("holds %q, want %q", fv.String(), b)
			}
		case "secret":
			sec := fv.Interface().(setec.Secret)
			if sec == nil || !bytes.Equal(sec.Get(), b) {
				return bad("handle yields %q, want %q", sec.Get(), b)
			}
			// live: follows a later poll
			nb := append([]byte("v4:"), b...)
			svc.Set(full(f.Tag), 4, nb)
			if err := st.Refresh(context.Background()); err != nil {
				return h.V("harness", "Refresh: %v", err), info
			}
			if got := sec.Get(); !bytes.Equal(got, nb) {
				return bad("handle does not follow a poll: yields %q, want %q", got, nb)
			}
			// ... also when the service goes BACK to an earlier version
			svc.Set(full(f.Tag), 3, b)
			if err := st.Refresh(context.Background()); err != nil {
				return h.V("harness", "Refresh: %v", err), info
			}
			if got := sec.Get(); !bytes.Equal(got, b) {
				return bad("handle does not follow a poll after the service re-activated the earlier version 3: yields %q, want %q", got, b)
			}
			info.Class("handle-followed-a-rollback")
		case "bin":
			if got := fv.Interface().(binVal).Got; !bytes.Equal(got, b) {
				return bad("UnmarshalBinary saw %q, want %q", got, b)
			}
		case "binptr":
			p := fv.Interface().(*binVal)
			if p == nil || !bytes.Equal(p.Got, b) {
				return bad("UnmarshalBinary saw %v, want %q", p, b)
			}
		case "json-struct":
			var want jsonVal
			json.Unmarshal(b, &want)
			if !reflect.DeepEqual(fv.Interface().(jsonVal), want) {
				return bad("decoded %+v, want %+v", fv.Interface(), want)
			}
		case "json-map":
			var want map[string]int
			json.Unmarshal(b, &want)
			if !reflect.DeepEqual(fv.Interface().(map[string]int), want) {
				return bad("decoded %+v, want %+v", fv.Interface(), want)
			}
		case "json-int":
			var want int
			json.Unmarshal(b, &want)
			if int(fv.Int()) != want {
				return bad("decoded %d, want %d", fv.Int(), want)
			}
		case "json-binptr":
			var want binVal
			json.Unmarshal(b, &want)
			if p := fv.Interface().(*binVal); p == nil || !bytes.Equal(p.Got, want.Got) {
				return bad("a pointer field with the json verb holds %+v, JSON decoding of %q gives %+v (the type's UnmarshalBinary is not what the tag asks for)", p, b, want)
			}
		case "untagged-int":
			if fv.Int() != 424242 {
				return h.V("untagged-fields-untouched", "untagged int field %d now holds %d", i, fv.Int()), info
			}
		case "untagged-bytes":
			if string(fv.Bytes()) != "sentinel" {
				return h.V("untagged-fields-untouched", "untagged []byte field %d now holds %q", i, fv.Bytes()), info
			}
		case "untagged-binptr":
			if !fv.IsNil() {
				return h.V("untagged-fields-untouched", "untagged nil pointer field %d (a BinaryUnmarshaler type) is no longer nil", i), info
			}
		case "untagged-str":
			if fv.String() != "sentinel" {
				return h.V("untagged-fields-untouched", "untagged string field %d now holds %q", i, fv.String()), info
			}
		case "embedded":
			e := fv.Interface().(Embedded)
			if !bytes.Equal(e.EmbBytes, served[full("emb-bytes")]) || e.EmbStr != string(served[full("emb-str")]) {
				return bad("embedded fields hold %q,%q", e.EmbBytes, e.EmbStr)
			}
			if e.DeepStr != string(served[full("deep-str")]) || !bytes.Equal(e.DeepestBytes, served[full("deepest-bytes")]) {
				return bad("fields promoted from two and three levels down hold %q,%q", e.DeepStr, e.DeepestBytes)
			}
			if e.EmbPlain != 777 || e.DeepestPlain != 888 {
				return h.V("untagged-fields-untouched", "untagged fields of the embedded structs now hold %d, %d", e.EmbPlain, e.DeepestPlain), info
			}
		}
	}
	if c.ViaApply && fsFirst != nil && tagged > 0 {
		// (0) The very same *Fields value is applied to the same store AGAIN after the program has
		// scrubbed its raw fields: every field holds its secret's current value again, and a field
		// that cannot be decoded is reported again.
		for i, f := range c.Fields {
			if fieldIdx[i] < 0 {
				continue
			}
			switch fv := el.Field(fieldIdx[i]); f.Kind {
			case "bytes":
				fv.SetBytes([]byte("scrubbed"))
			case "string":
				fv.SetString("scrubbed")
			}
		}
		err2 := fsFirst.Apply(context.Background(), st)
		if len(failing) > 0 && err2 == nil {
			return h.V("field-failure-is-reported", "fields %v cannot be decoded; the first Apply said so, a second Apply of the same Fields to the same store reports no error", failing), info
		}
		if len(failing) == 0 && err2 != nil {
			return h.V("supported-shapes-accepted", "second Apply of the same Fields on the same store: %v", err2), info
		}
		for i, f := range c.Fields {
			if fieldIdx[i] < 0 || failing[i] {
				continue
			}
			b := served[full(f.Tag)]
			switch fv := el.Field(fieldIdx[i]); f.Kind {
			case "bytes":
				if !bytes.Equal(fv.Bytes(), b) {
					return h.V("field-holds-current-value", "field %d ([]byte, %q) was overwritten by the program; after applying the same Fields again it holds %q, the store serves %q", i, full(f.Tag), fv.Bytes(), b), info
				}
			case "string":
				if fv.String() != string(b) {
					return h.V("field-holds-current-value", "field %d (string, %q) was overwritten by the program; after applying the same Fields again it holds %q, the store serves %q", i, full(f.Tag), fv.String(), b), info
				}
			}
		}
		info.Class("same-fields-applied-again")
		// (0b) The operator corrects the secrets that could not be decoded (all of them unmarshaler
		// fields here), the store polls, and the program applies the same Fields once more: now every
		// field is filled and no error is reported - a failed Apply leaves nothing behind.
		onlyBin := len(failing) > 0
		for i := range failing {
			if k := c.Fields[i].Kind; k != "bin" && k != "binptr" {
				onlyBin = false
			}
		}
		if onlyBin {
			for i := range failing {
				name := full(c.Fields[i].Tag)
				served[name] = []byte("corrected:" + name)
				svc.Set(name, 7, served[name])
			}
			if err := st.Refresh(context.Background()); err != nil {
				return h.V("harness", "Refresh: %v", err), info
			}
			if err := fsFirst.Apply(context.Background(), st); err != nil {
				return h.V("supported-shapes-accepted", "the secrets of the fields that could not be decoded (%v) were corrected and the store has polled; applying the same Fields again still fails: %v", failing, err), info
			}
			for i := range failing {
				b := served[full(c.Fields[i].Tag)]
				switch fv := el.Field(fieldIdx[i]); c.Fields[i].Kind {
				case "bin":
					if got := fv.Interface().(binVal).Got; !bytes.Equal(got, b) {
						return h.V("field-holds-current-value", "field %d (an unmarshaler value) after its secret was corrected and the same Fields applied again: UnmarshalBinary saw %q, the store serves %q", i, got, b), info
					}
				case "binptr":
					if pv := fv.Interface().(*binVal); pv == nil || !bytes.Equal(pv.Got, b) {
						return h.V("field-holds-current-value", "field %d (a pointer to an unmarshaler) after its secret was corrected and the same Fields applied again (no error reported): holds %v, the store serves %q", i, pv, b), info
					}
				}
			}
			info.Class("failed-fields-corrected-and-applied-again")
			return nil, info
		}
	}
	if c.ViaApply && len(failing) == 0 && tagged > 0 {
		// (a) The same *Fields value is applied to ANOTHER store later (the first process's store is gone,
		// the service has moved on): the fields hold what the store they were given now serves.
		fs, err := setec.ParseFields(arg, c.Prefix)
		if err != nil {
			return h.V("harness", "ParseFields again: %v", err), info
		}
		if err := fs.Apply(context.Background(), st); err != nil {
			return h.V("supported-shapes-accepted", "second Apply on the same store: %v", err), info
		}
		svc2 := fake.NewSvc()
		svc2.Set("plain", 1, []byte("plain-value"))
		for n, b := range served {
			svc2.Set(n, 9, append([]byte("S2:"), b...))
		}
		st2, err := setec.NewStore(context.Background(), setec.StoreConfig{Client: svc2, Secrets: []string{"plain"}, AllowLookup: true, PollInterval: -1, Logf: nolog})
		if err != nil {
			return h.V("harness", "NewStore 2: %v", err), info
		}
		defer st2.Close()
		// JSON and unmarshaler fields would reject the prefixed bytes: look at the raw kinds only
		rawOnly := true
		for _, f := range c.Fields {
			if isTagged(f.Kind) && f.Kind != "bytes" && f.Kind != "string" && f.Kind != "secret" {
				rawOnly = false
			}
		}
		if rawOnly && !hasEmb {
			if err := fs.Apply(context.Background(), st2); err != nil {
				return h.V("supported-shapes-accepted", "Apply of the same Fields to a second store: %v", err), info
			}
			for i, f := range c.Fields {
				want := append([]byte("S2:"), served[full(f.Tag)]...)
				fv := el.Field(fieldIdx[i])
				switch f.Kind {
				case "bytes":
					if !bytes.Equal(fv.Bytes(), want) {
						return h.V("field-holds-current-value", "field %d ([]byte, tag %q) after applying the same Fields to a second store holds %q, that store serves %q", i, f.Tag, fv.Bytes(), want), info
					}
				case "string":
					if fv.String() != string(want) {
						return h.V("field-holds-current-value", "field %d (string, tag %q) after applying the same Fields to a second store holds %q, that store serves %q", i, f.Tag, fv.String(), want), info
					}
				case "secret":
					if got := fv.Interface().(setec.Secret).Get(); !bytes.Equal(got, want) {
						return h.V("field-holds-current-value", "field %d (Secret, tag %q) after applying the same Fields to a second store yields %q, that store serves %q", i, f.Tag, got, want), info
					}
				}
			}
			info.Class("same-fields-applied-to-a-second-store")
		}
		// (b) Apply under a context that has ended, on a store that already knows every secret but the
		// first one: that field fails (its lookup cannot be made), the failure is reported, and every
		// other field is filled all the same.
		if rawOnly && !hasEmb && len(wantNames) >= 2 {
			known := append([]string{"plain"}, wantNames[1:]...)
			st3, err := setec.NewStore(context.Background(), setec.StoreConfig{Client: svc, Secrets: known, AllowLookup: true, PollInterval: -1, Logf: nolog})
			if err != nil {
				return h.V("harness", "NewStore 3: %v", err), info
			}
			defer st3.Close()
			stillKnown := false
			for _, n := range wantNames[1:] {
				if n == wantNames[0] {
					stillKnown = true // the first name is named again later: then nothing needs a lookup
				}
			}
			fresh := reflect.New(sv.Elem().Type())
			fs3, err := setec.ParseFields(fresh.Interface(), c.Prefix)
			if err != nil {
				return h.V("harness", "ParseFields 3: %v", err), info
			}
			cctx, ccancel := context.WithCancel(context.Background())
			ccancel()
			aerr := fs3.Apply(cctx, st3)
			if !stillKnown && aerr == nil && svc.CountFor(wantNames[0]) == 0 {
				// (a lookup that succeeds although the context has ended is the store's business)
			}
			for i, f := range c.Fields {
				if !isTagged(f.Kind) || full(f.Tag) == wantNames[0] {
					continue
				}
				want := served[full(f.Tag)]
				fv := fresh.Elem().Field(fieldIdx[i])
				ok := true
				switch f.Kind {
				case "bytes":
					ok = bytes.Equal(fv.Bytes(), want)
				case "string":
					ok = fv.String() == string(want)
				case "secret":
					sec := fv.Interface().(setec.Secret)
					ok = sec != nil && bytes.Equal(sec.Get(), want)
				}
				if !ok {
					return h.V("one-failure-does-not-stop-the-others", "Apply under an ended context on a store that knows every secret except %q: field %d (%s, tag %q) was not filled (Apply returned %v)", wantNames[0], i, f.Kind, f.Tag, aerr), info
				}
			}
			info.Class("apply-under-an-ended-context")
		}
	}
	nk := 0
	for k := range kinds {
		if isTagged(k) {
			nk++
		}
	}
	untagged := kinds["untagged-int"] || kinds["untagged-bytes"] || kinds["untagged-str"] || kinds["untagged-binptr"]
	info.NonTrivial = tagged >= 3 && nk >= 3 && untagged
	if len(failing) > 0 && c.ViaApply {
		info.Class("others-filled-despite-failure")
		info.NonTrivial = true
	}
	return nil, info
}

var c20Tags = []string{"alpha", "beta", "gamma", "db/password", "k8s/token", "x",
	// names that merely END like the json verb - the verb is what follows the comma, nothing else
	"service-account.json", "json", "motd-json"}

func genStructCase(rt *rapid.T) StructCase {
	c := StructCase{
		Prefix:   rapid.SampledFrom([]string{"", "dev", "prod/app", "a/b/c"}).Draw(rt, "prefix"),
		ArgKind:  rapid.SampledFrom([]string{"ptr-struct", "ptr-struct", "ptr-struct", "ptr-struct", "ptr-struct", "ptr-struct", "ptr-struct", "struct", "ptr-int", "nil-map"}).Draw(rt, "arg"),
		ViaApply: rapid.Bool().Draw(rt, "apply"),
		Scribble: rapid.Bool().Draw(rt, "scribble"),
		Wire:     rapid.IntRange(0, 2).Draw(rt, "wire") == 0,
	}
	good := []string{"bytes", "bytes", "string", "secret", "bin", "binptr", "json-struct", "json-map", "json-int", "json-binptr", "untagged-int", "untagged-bytes", "untagged-str", "untagged-binptr", "embedded"}
	bad := []string{"bad-int", "bad-float", "bad-chan", "empty-tag"}
	withBad := rapid.IntRange(0, 9).Draw(rt, "withbad") == 0
	allUntagged := rapid.IntRange(0, 14).Draw(rt, "alluntagged") == 0
	used := map[string]string{}
	n := rapid.IntRange(1, 8).Draw(rt, "nfields")
	for i := 0; i < n; i++ {
		pool := good
		if withBad && rapid.IntRange(0, 2).Draw(rt, "bad") == 0 {
			pool = bad
		}
		if allUntagged {
			pool = []string{"untagged-int", "untagged-bytes", "untagged-str", "untagged-binptr"}
		}
		f := FieldSpec{Kind: rapid.SampledFrom(pool).Draw(rt, "kind")}
		f.Tag = rapid.SampledFrom(c20Tags).Draw(rt, "tag")
		if c.Prefix != "" && rapid.IntRange(0, 5).Draw(rt, "tag-repeats-prefix") == 0 {
			// a name that itself begins with the prefix is prefixed like any other
			f.Tag = c.Prefix + "/" + f.Tag
		}
		raw := f.Kind == "bytes" || f.Kind == "string" || f.Kind == "secret" || f.Kind == "bin" || f.Kind == "binptr"
		if used[f.Tag] != "" && isTagged(f.Kind) && !(raw && used[f.Tag] == "raw") {
			f.Tag = fmt.Sprintf("%s-%d", f.Tag, i) // same secret for two fields only among the raw kinds (one value fits both)
		}
		if isTagged(f.Kind) {
			if raw {
				used[f.Tag] = "raw"
			} else {
				used[f.Tag] = "structured"
			}
		}
		switch rapid.IntRange(0, 7).Draw(rt, "valkind") {
		case 0:
			f.Val = []byte{}
		case 1:
			f.Val = append([]byte("REJECT"), rapid.SliceOfN(rapid.Byte(), 0, 4).Draw(rt, "rej")...)
		case 2:
			f.Val = append([]byte("BAD{"), rapid.SliceOfN(rapid.Byte(), 0, 4).Draw(rt, "badjson")...)
		case 3:
			if strings.HasPrefix(f.Kind, "json-") {
				f.Val = append([]byte("TRAIL"), rapid.SliceOfN(rapid.Byte(), 0, 4).Draw(rt, "trail")...)
			} else {
				// text ending in line terminators or other white space: delivered unaltered
				f.Val = append(rapid.SliceOfN(rapid.Byte(), 0, 6).Draw(rt, "val"), rapid.SampledFrom([]string{"\n", "\r\n", "\n\n", " ", "\t\n", "\r"}).Draw(rt, "tail")...)
			}
		default:
			f.Val = rapid.SliceOfN(rapid.Byte(), 1, 24).Draw(rt, "val")
		}
		c.Fields = append(c.Fields, f)
	}
	return c
}

var c20 = &h.Campaign[StructCase]{
	Prop: "C20", Sub: "structs",
	Rule: "rapid: struct types built at run time with reflect.StructOf: 1-8 exported fields in random order from {[]byte, string, setec.Secret, value and pointer BinaryUnmarshaler, ',json' struct/map/int, untagged int/[]byte/string with sentinels, an embedded struct with two tagged fields and an untagged one, unsupported tagged int/float/chan, an empty tag name}, clean prefixes, random/empty/rejected/invalid-JSON secret bytes, JSON values followed by trailing data, text ending in line terminators, untagged nil pointers of an unmarshaler type; populated through NewStore(Structs) or ParseFields+Apply (then the same Fields applied to a second store that serves other bytes, and a fresh struct applied under an ended context on a store that lacks only the first secret); also non-pointer / non-struct arguments and structs without tags; populated []byte fields are overwritten and the store re-read; the embedded struct itself embeds structs with tagged fields two and three levels down, tag names that begin with the prefix; non-trivial = >= 3 tagged fields of >= 3 kinds plus an untagged one, or a rejected shape, or a failing field with the others filled; distinct by scenario",
	Quick: 5000, Thorough: 5000000,
	Gen:   genStructCase,
	Run:   runC20,
}

func init() { c20.Register() }

func TestC20Structs(t *testing.T) { c20.Check(t) }
