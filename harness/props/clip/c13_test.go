package clip

import (
	"bytes"
	"context"
	"encoding/json"
	"fmt"
	"os"
	"path/filepath"
	"sort"
	"strings"
	"syscall"
	"testing"
	"time"

	"github.com/tailscale/setec/client/setec"
	"pgregory.net/rapid"
	"verifharness/fake"
	"verifharness/h"
	"verifharness/model"
)

// ---- C13 part 1: the cache is rewritten as one complete, faithful document ------

// chanTicker is a test-controlled setec.Ticker.
type chanTicker struct {
	ch   chan time.Time
	done chan struct{}
}

func newChanTicker() *chanTicker {
	return &chanTicker{ch: make(chan time.Time), done: make(chan struct{})}
}
func (c *chanTicker) Chan() <-chan time.Time { return c.ch }
func (c *chanTicker) Stop()                  {}
func (c *chanTicker) Done()                  { c.done <- struct{}{} }
func (c *chanTicker) Poll()                  { c.ch <- time.Now(); <-c.done }

type COp struct {
	Kind      string   `json:"kind"` // lookup | set | poll | read | advance | restart
	Name      string   `json:"name,omitempty"`
	Redeclare []string `json:"redeclare,omitempty"` // restart: declared set of the next process (nil = unchanged)
	// restart: between Close and the end of the process the program looks Name up (Close stops the
	// poller, nothing else): a value installed then is written to the cache like any other
	AfterClose bool `json:"after_close,omitempty"`
}

type CacheHistCase struct {
	Declared  []string `json:"declared"`
	Ops       []COp    `json:"ops"`
	ExpiryS   int      `json:"expiry_s"` // expiry age of the store (0 = none); handles taken by this history pin their secrets
	FailRead  bool     `json:"fail_read"`
	FailWrite []int    `json:"fail_write"` // write calls (1-based) that fail
	// FileAgeDays >= 0 (with FromFile): the second store is started from a real FileCache whose file was
	// last written that many days ago - a process that ran for months without a rotation and then
	// crashed restarts from exactly such a file; the property sets no age limit
	FromFile    bool `json:"from_file,omitempty"`
	FileAgeDays int  `json:"file_age_days,omitempty"`
}

var c13Names = []string{"d1", "d2", "u1", "u2", "empty", uOdd}

func c13Value(name string, ver uint32) []byte {
	if name == "empty" {
		return []byte{}
	}
	return valueOf(name, ver)
}

type c13model struct {
	ver  uint32
	last int64
}

func runC13Hist(t *testing.T, c CacheHistCase) (*h.Violation, h.Info) {
	var info h.Info
	dir := h.Scratch(t)
	defer os.RemoveAll(dir)
	svc := fake.NewSvc()
	nver := map[string]uint32{}
	for _, n := range c13Names {
		svc.Set(n, 1, c13Value(n, 1))
		nver[n] = 1
	}
	clock := fake.NewClock(clockStart)
	cache := fake.NewCache(nil)
	cache.FailRead = c.FailRead
	for _, k := range c.FailWrite {
		cache.FailWrite[k] = true
	}
	faulty := c.FailRead || len(c.FailWrite) > 0
	if faulty {
		info.Class("cache-faults-injected")
	}
	known := map[string]*c13model{}
	var st *setec.Store
	var tick *chanTicker
	checked := 0
	declared := c.Declared
	start := func() *h.Violation {
		tick = newChanTicker()
		var err error
		fetchNeeded := ""
		for _, d := range declared {
			if known[d] == nil {
				fetchNeeded = d
			}
		}
		w0 := cache.NumWriteCalls()
		defer func() {
			_ = w0
		}()
		st, err = setec.NewStore(context.Background(), setec.StoreConfig{
			Client: svc, Secrets: append([]string{}, declared...), AllowLookup: true, Cache: cache,
			PollTicker: tick, TimeNow: clock.Now, Logf: nolog, ExpiryAge: time.Duration(c.ExpiryS) * time.Second,
		})
		if err != nil {
			return h.V("store-survives-cache-failures", "NewStore failed (cache read fails=%v, failing writes=%v): %v", c.FailRead, c.FailWrite, err)
		}
		for _, d := range declared {
			if known[d] == nil {
				v, _, _ := svc.Active(d)
				known[d] = &c13model{ver: v, last: clock.Unix()}
			}
		}
		if fetchNeeded != "" && cache.NumWriteCalls() == w0 {
			return h.V("written-at-initial-fetch", "start-up fetched %q (declared, not in the cache) but did not write the cache (declared %v)", fetchNeeded, declared)
		}
		return nil
	}
	// verify one written document against the model and through a second store / file client
	verify := func(step int, what string) *h.Violation {
		for checked < cache.NumWrites() {
			cache.Data() // (lock ordering)
			data := cache.Writes[checked]
			checked++
			doc, err := model.DecodeCacheStrict(data)
			if err != nil {
				return h.V("one-complete-document", "step %d %s: cache write %d is not one complete document of the documented shape: %v (%q)", step, what, checked, err, data)
			}
			if checked != cache.NumWrites() {
				continue // only the newest document can be compared with the current model
			}
			for n, m := range known {
				e, ok := doc[n]
				if !ok {
					return h.V("document-lists-every-known-secret", "step %d %s: cache document lacks known secret %q: %q", step, what, n, data)
				}
				if e.Version != m.ver || !bytes.Equal(e.Value, c13Value(n, m.ver)) {
					return h.V("document-holds-latest-version-and-bytes", "step %d %s: cache has %q v%d %q, the store holds v%d %q", step, what, n, e.Version, e.Value, m.ver, c13Value(n, m.ver))
				}
				if e.LastAccess != m.last {
					return h.V("document-holds-current-last-access", "step %d %s: cache stamps %q with %d, last access was %d", step, what, n, e.LastAccess, m.last)
				}
			}
			for n := range doc {
				if known[n] == nil {
					return h.V("document-lists-every-known-secret", "step %d %s: cache document lists unknown secret %q", step, what, n)
				}
			}
			// a new store from these bytes with the service unreachable serves exactly those values
			dead := fake.NewSvc()
			// (bounded: a store that wrongly decides it must fetch something would retry for ever)
			bctx, bcancel := context.WithTimeout(context.Background(), 1500*time.Millisecond)
			var cache2 setec.Cache = fake.NewCache(data)
			if c.FromFile {
				p := filepath.Join(dir, "restart", "cache.json")
				fc, err := setec.NewFileCache(p)
				if err != nil {
					bcancel()
					return h.V("harness", "NewFileCache: %v", err)
				}
				if err := fc.Write(data); err != nil {
					bcancel()
					return h.V("harness", "FileCache.Write: %v", err)
				}
				old := time.Now().Add(-time.Duration(c.FileAgeDays) * 24 * time.Hour)
				os.Chtimes(p, old, old)
				cache2 = fc
				info.Class("second-store-starts-from-a-real-cache-file")
				if c.FileAgeDays > 30 {
					info.Class("cache-file-last-written-more-than-a-month-ago")
				}
			}
			st2, err := setec.NewStore(bctx, setec.StoreConfig{Client: dead, Secrets: append([]string{}, declared...), AllowLookup: true, Cache: cache2, PollInterval: -1, Logf: nolog})
			bcancel()
			if err != nil {
				return h.V("restart-from-cache-without-service", "step %d %s: a store started from the cache with the service unreachable failed: %v (cache: %q)", step, what, err, data)
			}
			for n, e := range doc {
				hd := st2.Secret(n)
				if hd == nil || !bytes.Equal(hd.Get(), e.Value) {
					st2.Close()
					return h.V("restart-from-cache-without-service", "step %d %s: store restarted from the cache yields %q for %q, cache has %q", step, what, hd.Get(), n, e.Value)
				}
			}
			st2.Close()
			if dead.LogLen() != 0 {
				return h.V("restart-from-cache-without-service", "step %d %s: restart from a complete cache sent %d requests", step, what, dead.LogLen())
			}
			// the same bytes are a valid secrets file
			p := filepath.Join(dir, "asfile.json")
			os.WriteFile(p, data, 0o600)
			fc, err := setec.NewFileClient(p)
			if err != nil {
				return h.V("cache-accepted-by-file-client", "step %d %s: NewFileClient rejects the cache document: %v", step, what, err)
			}
			for n, e := range doc {
				sv, err := fc.Get(context.Background(), n)
				if len(e.Value) == 0 {
					continue // empty secrets are outside the file client's contract
				}
				if err != nil || uint32(sv.Version) != e.Version || !bytes.Equal(sv.Value, e.Value) {
					return h.V("cache-accepted-by-file-client", "step %d %s: FileClient yields %v,%v for %q; cache has v%d %q", step, what, sv, err, n, e.Version, e.Value)
				}
			}
		}
		return nil
	}
	if v := start(); v != nil {
		return v, info
	}
	defer func() { st.Close() }()
	if !faulty {
		if cache.NumWrites() == 0 {
			return h.V("written-at-initial-fetch", "the initial fetch did not write the cache"), info
		}
		if v := verify(-1, "initial fetch"); v != nil {
			return v, info
		}
	}
	handles := map[string]setec.Secret{}
	sawRestartAfterLookup := false
	lastKind := ""
	for i, o := range c.Ops {
		what := fmt.Sprintf("%+v", o)
		w0 := cache.NumWriteCalls()
		switch o.Kind {
		case "lookup":
			hd, err := st.LookupSecret(context.Background(), o.Name)
			if err != nil {
				return h.V("harness", "lookup: %v", err), info
			}
			handles[o.Name] = hd
			if known[o.Name] == nil {
				v, _, _ := svc.Active(o.Name)
				known[o.Name] = &c13model{ver: v, last: clock.Unix()}
				if cache.NumWriteCalls() == w0 {
					return h.V("written-after-lookup", "step %d: lookup of new secret %q did not write the cache", i, o.Name), info
				}
			}
		case "watch":
			// the program asks for an updater: for a name the store does not hold yet that is a lookup too
			if _, err := setec.NewUpdater(context.Background(), st, o.Name, func(b []byte) (string, error) { return string(b), nil }); err != nil {
				return h.V("harness", "NewUpdater: %v", err), info
			}
			if known[o.Name] == nil {
				v, _, _ := svc.Active(o.Name)
				known[o.Name] = &c13model{ver: v, last: clock.Unix()}
				info.Class("lookup-through-newupdater")
				if cache.NumWriteCalls() == w0 {
					return h.V("written-after-lookup", "step %d: NewUpdater looked the new secret %q up; the cache was not written", i, o.Name), info
				}
			}
			known[o.Name].last = clock.Unix() // the updater's first value is a read
			if handles[o.Name] == nil {
				handles[o.Name] = st.Secret(o.Name) // (a watcher keeps its secret referenced; so does the model, through a handle)
			}
		case "set":
			nver[o.Name]++
			svc.Set(o.Name, nver[o.Name], c13Value(o.Name, nver[o.Name]))
		case "clockback":
			// the machine's clock is set back (or the cache file travels to a machine whose clock is
			// behind): the stamps in the cache are then in the future - a cache all the same
			clock.Advance(-5000)
			info.Class("clock-behind-the-cache-stamps")
		case "advance":
			clock.Advance(7)
			if c.ExpiryS > 0 {
				info.Class("clock-advanced-with-expiry-age")
			}
		case "read":
			if hd := handles[o.Name]; hd != nil {
				got := hd.Get()
				known[o.Name].last = clock.Unix()
				if !bytes.Equal(got, c13Value(o.Name, known[o.Name].ver)) {
					return h.V("store-keeps-serving", "step %d: handle of %q yields %q", i, o.Name, got), info
				}
			} else if m := known[o.Name]; m != nil {
				hd := st.Secret(o.Name)
				handles[o.Name] = hd
				hd.Get()
				m.last = clock.Unix()
			}
		case "poll":
			installs := false
			for n, m := range known {
				// undeclared, unreferenced and stale: legitimately expires at this poll (C19 decides that)
				isDecl := false
				for _, d := range declared {
					if d == n {
						isDecl = true
					}
				}
				if c.ExpiryS > 0 && !isDecl && handles[n] == nil && clock.Unix()-m.last > int64(c.ExpiryS) {
					delete(known, n)
					installs = true
					continue
				}
				if v, _, _ := svc.Active(n); v != m.ver {
					installs = true
					m.ver = v
				}
			}
			tick.Poll()
			if installs && cache.NumWriteCalls() == w0 {
				return h.V("written-after-installing-poll", "step %d: a poll installed new values but did not write the cache", i), info
			}
		case "pollfail":
			// One declared secret cannot be fetched during this poll (a blip, a withdrawn grant) while
			// others may have new versions. Whether the store then installs what it did get is its
			// choice - but whatever it serves afterwards, the cache holds too.
			if faulty || len(declared) == 0 {
				continue
			}
			failName := declared[(i+len(c.Ops))%len(declared)]
			svc.SetScript(failName, []fake.Beh{{Kind: "err"}})
			tick.Poll()
			svc.SetScript(failName, nil)
			doc, err := model.DecodeCacheStrict(cache.Data())
			if err != nil {
				return h.V("cache-document-well-formed", "step %d pollfail: %v", i, err), info
			}
			for _, dn := range declared {
				hd := st.Secret(dn)
				if hd == nil {
					continue
				}
				if e, ok := doc[dn]; !ok || !bytes.Equal(e.Value, hd.Get()) {
					return h.V("document-holds-latest-version-and-bytes", "step %d: after a poll during which %q could not be fetched the store serves %q for the declared secret %q, the cache document holds %q (present=%v): a store restarted from it during an outage would serve the older value", i, failName, hd.Get(), dn, e.Value, ok), info
				}
				handles[dn] = hd // (the read is a read: it pins the secret and stamps it)
				if m := known[dn]; m != nil {
					m.last = clock.Unix()
				}
			}
			// the model follows the document (what the store installed of the rest is its choice)
			for n, m := range known {
				if e, ok := doc[n]; ok {
					m.ver = e.Version
				} else {
					delete(known, n)
				}
			}
			info.Class("a-poll-that-fails-for-one-declared-secret")
			lastKind = o.Kind
			checked = cache.NumWrites() // (a document written during this poll was judged here, against the state it was written in)
			continue
		case "restart":
			st.Close() // the poller stops: the cache must be flushed with current stamps
			if cache.NumWriteCalls() == w0 {
				// no write at all is as good as a rewrite only if the cache already holds, byte for byte
				// in meaning, what a rewrite would have put there: every known secret, its latest version
				// and bytes, and the current last-access stamps
				diff := ""
				doc, err := model.DecodeCacheStrict(cache.Data())
				if err != nil {
					diff = err.Error()
				} else {
					for n, m := range known {
						if e, ok := doc[n]; !ok || e.Version != m.ver || !bytes.Equal(e.Value, c13Value(n, m.ver)) || e.LastAccess != m.last {
							diff = fmt.Sprintf("%q: cache has present=%v v%d stamp %d, the store knew v%d stamp %d", n, ok, e.Version, e.LastAccess, m.ver, m.last)
						}
					}
					for n := range doc {
						if known[n] == nil {
							diff = fmt.Sprintf("cache lists %q, which the store no longer knew", n)
						}
					}
				}
				if diff != "" {
					return h.V("written-when-poller-stops", "step %d: Close did not write the cache, and what the cache holds is not what a rewrite would have put there (%s)", i, diff), info
				}
				info.Class("close-found-the-cache-already-up-to-date")
			}
			if !faulty {
				if v := verify(i, "close"); v != nil {
					return v, info
				}
			}
			if lastKind == "lookup" || lastKind == "read" || lastKind == "watch" {
				sawRestartAfterLookup = true
			}
			if _, lerr := error(nil), error(nil); o.AfterClose && known[o.Name] == nil {
				wc := cache.NumWriteCalls()
				if _, lerr = st.LookupSecret(context.Background(), o.Name); lerr != nil {
					info.Class("lookup-after-close-refused") // (a store may decline to work after Close: then nothing was installed)
				}
				if lerr == nil {
					v, _, _ := svc.Active(o.Name)
					known[o.Name] = &c13model{ver: v, last: clock.Unix()}
					info.Class("lookup-after-close")
					if cache.NumWriteCalls() == wc {
						return h.V("written-after-lookup", "step %d: after Close the program looked the new secret %q up (the store installed and serves it); the cache was not written", i, o.Name), info
					}
					if !faulty {
						if v := verify(i, "lookup after close"); v != nil {
							return v, info
						}
					}
				}
			}
			// what the next process knows is what the last successful write holds
			data := cache.Data()
			if c.FailRead || len(data) == 0 {
				known = map[string]*c13model{}
			} else if doc, err := model.DecodeCacheStrict(data); err == nil {
				// ... which, after failed writes, may still list a secret this process has dropped since
				known = map[string]*c13model{}
				for n, e := range doc {
					known[n] = &c13model{ver: e.Version, last: e.LastAccess}
				}
			}
			handles = map[string]setec.Secret{}
			if o.Redeclare != nil {
				declared = o.Redeclare
				info.Class("restart-with-different-declared-set")
			}
			if v := start(); v != nil {
				return v, info
			}
		}
		lastKind = o.Kind
		if !faulty {
			if v := verify(i, what); v != nil {
				return v, info
			}
		}
		// whatever the cache does, every known secret keeps being served
		for n, hd := range handles {
			if got := hd.Get(); !bytes.Equal(got, c13Value(n, known[n].ver)) {
				return h.V("store-keeps-serving", "step %d %s: handle of %q yields %q, want v%d", i, what, n, got, known[n].ver), info
			}
			known[n].last = clock.Unix()
		}
	}
	info.NonTrivial = sawRestartAfterLookup || faulty
	if sawRestartAfterLookup {
		info.Class("restart-after-lookup-or-read")
	}
	return nil, info
}

var c13hist = &h.Campaign[CacheHistCase]{
	Prop: "C13", Sub: "history",
	Rule:  "rapid: store histories (initial fetch, lookups, service changes + polls through the store's own poller, reads, clock advances, Close + restart from the cache) with a recording cache; every document written is decoded strictly, compared with the model (every known secret, latest version/bytes, current last-access stamp), fed to a second store whose service is unreachable and to NewFileClient; writes are demanded at initial fetch, after an installing poll, after a lookup and when the poller stops; in a quarter of the cases Cache.Read or generated Cache.Write calls fail and the store must keep serving; in a quarter of the cases the second store starts from a real FileCache whose file was last written 0-4000 days ago; non-trivial = a restart that follows a lookup/read, or injected cache faults; distinct by scenario",
	Quick: 1500, Thorough: 400000,
	Gen: func(rt *rapid.T) CacheHistCase {
		c := CacheHistCase{Declared: rapid.SampledFrom([][]string{{"d1"}, {"d1", "d2"}, {"d1", "empty"}}).Draw(rt, "declared")}
		c.Ops = rapid.SliceOfN(rapid.Custom(func(rt *rapid.T) COp {
			o := COp{Kind: rapid.SampledFrom([]string{"lookup", "lookup", "watch", "set", "set", "poll", "poll", "pollfail", "read", "advance", "clockback", "restart"}).Draw(rt, "kind"), Name: rapid.SampledFrom(c13Names).Draw(rt, "name")}
			if o.Kind == "restart" {
				o.AfterClose = rapid.IntRange(0, 3).Draw(rt, "afterclose") == 0
			}
			if o.Kind == "restart" && rapid.IntRange(0, 2).Draw(rt, "redeclare") == 0 {
				o.Redeclare = rapid.SampledFrom([][]string{{"d1"}, {"d2"}, {"d1", "d2"}, {"d2", "u1"}, {"u2"}}).Draw(rt, "newdecl")
			}
			return o
		}), h.LenBias(rt, 1, 25), 25).Draw(rt, "ops")
		c.ExpiryS = rapid.SampledFrom([]int{0, 0, 10}).Draw(rt, "expiry")
		if rapid.IntRange(0, 3).Draw(rt, "fromfile") == 0 {
			c.FromFile, c.FileAgeDays = true, rapid.SampledFrom([]int{0, 1, 29, 31, 366, 4000}).Draw(rt, "fileage")
		}
		if rapid.IntRange(0, 3).Draw(rt, "faulty") == 0 {
			c.FailRead = rapid.Bool().Draw(rt, "failread")
			c.FailWrite = rapid.SliceOfN(rapid.IntRange(1, 12), 0, 4).Draw(rt, "failwrite")
		}
		return c
	},
	Run: runC13Hist,
}

// ---- C13 part 2: arbitrary cache contents ----------------------------------------

// entry templates: text with %N (name's served-looking value) and a class.
type entryT struct {
	Text  string
	Class string // valid | grey | malformed
}

var entryTemplates = []entryT{
	{`{"secret":{"Value":"Y2FjaGVk","Version":4},"lastAccess":"1700000000"}`, "valid"},
	{`{"secret":{"Value":"Y2FjaGVk","Version":4},"lastAccess":"0"}`, "valid"},
	{`{"secret":{"Value":"","Version":1},"lastAccess":"5"}`, "valid"},
	{`{"secret":{"Value":null,"Version":2},"lastAccess":"5"}`, "valid"},
	{`{"lastAccess":"12","secret":{"Version":9,"Value":"Y2FjaGVk"}}`, "valid"},
	{`{"secret":{"Value":"Y2FjaGVk","Version":4}}`, "grey"},
	{`{"secret":{"Value":"Y2FjaGVk","Version":4},"lastAccess":"1","extra":[1,2]}`, "grey"},
	{`{"Secret":{"Value":"Y2FjaGVk","Version":4},"LASTACCESS":"1"}`, "grey"},
	{`{"secret":{"value":"Y2FjaGVk","version":4},"lastAccess":"1"}`, "grey"},
	{`{"secret":{"Value":"Y2FjaGVk","Version":0},"lastAccess":"1"}`, "grey"},
	{`{"secret":{"Version":3},"lastAccess":"1"}`, "grey"},
	{`{"secret":{},"lastAccess":"1"}`, "grey"},
	{`{"secret":{"Value":"Y2FjaGVk","Version":4},"lastAccess":null}`, "grey"},
	{`{"secret":{"Value":"Y2FjaGVk","Version":4},"secret":{"Value":"b3RoZXI=","Version":5},"lastAccess":"1"}`, "grey"},
	{`{"secret":{"Value":"Y2FjaGVk","Version":4,"TextValue":"x"},"lastAccess":"1"}`, "grey"},
	{`null`, "malformed"},
	{`{}`, "malformed"},
	{`{"lastAccess":"1"}`, "malformed"},
	{`{"secret":null,"lastAccess":"1"}`, "malformed"},
	{`[]`, "malformed"},
	{`"text"`, "malformed"},
	{`7`, "malformed"},
	{`{"secret":5,"lastAccess":"1"}`, "malformed"},
	{`{"secret":[],"lastAccess":"1"}`, "malformed"},
	{`{"secret":{"Value":5,"Version":1},"lastAccess":"1"}`, "malformed"},
	{`{"secret":{"Value":"!!notbase64","Version":1},"lastAccess":"1"}`, "malformed"},
	{`{"secret":{"Value":"Y2FjaGVk","Version":"1"},"lastAccess":"1"}`, "malformed"},
	{`{"secret":{"Value":"Y2FjaGVk","Version":-1},"lastAccess":"1"}`, "malformed"},
	{`{"secret":{"Value":"Y2FjaGVk","Version":4294967296},"lastAccess":"1"}`, "malformed"},
	{`{"secret":{"Value":"Y2FjaGVk","Version":1.5},"lastAccess":"1"}`, "malformed"},
	// (a stamp spelled as a JSON number instead of the documented decimal string: a reader may take it)
	{`{"secret":{"Value":"Y2FjaGVk","Version":4},"lastAccess":17}`, "grey"},
	{`{"secret":{"Value":"Y2FjaGVk","Version":4},"lastAccess":"soon"}`, "malformed"},
	{`{"secret":{"Value":"Y2FjaGVk","Version":4},"lastAccess":["1"]}`, "malformed"},
}

type DocCase struct {
	Top     string   `json:"top"`     // object | null | array | string | number | empty | garbage | nested
	Keys    []string `json:"keys"`    // top-level keys in order
	Entries []int    `json:"entries"` // index into entryTemplates per key
	Cut     int      `json:"cut"`     // >0: keep only this many bytes (mod length)
	Tail    string   `json:"tail"`    // appended after the document
}

func (d DocCase) render() (data []byte, class string) {
	class = "valid"
	worse := func(c string) {
		if c == "malformed" || (c == "grey" && class == "valid") {
			class = c
		}
	}
	switch d.Top {
	case "null":
		return []byte("null"), "malformed"
	case "array":
		return []byte(`[{"secret":{"Value":"Y2FjaGVk","Version":4},"lastAccess":"1"}]`), "malformed"
	case "string":
		return []byte(`"a"`), "malformed"
	case "number":
		return []byte(`42`), "malformed"
	case "empty":
		return nil, "empty"
	case "garbage":
		return []byte("\x00\xff{not json"), "malformed"
	}
	var sb strings.Builder
	sb.WriteByte('{')
	seen := map[string]bool{}
	for i, k := range d.Keys {
		if i > 0 {
			sb.WriteByte(',')
		}
		e := entryTemplates[d.Entries[i]%len(entryTemplates)]
		kb, _ := json.Marshal(k)
		sb.Write(kb)
		sb.WriteByte(':')
		sb.WriteString(e.Text)
		worse(e.Class)
		if k == "" {
			worse("malformed")
		}
		if seen[k] {
			worse("grey") // duplicate top-level key
			if e.Class == "malformed" || k == "" {
				worse("malformed")
			}
		}
		seen[k] = true
	}
	sb.WriteByte('}')
	data = []byte(sb.String())
	if len(d.Keys) == 0 {
		class = "valid" // an empty object is a well-formed, empty cache
	}
	// a duplicate key whose earlier occurrence is malformed but later one fine is decided
	// by the decoder's "last wins" rule, which the property does not fix: grey
	if class == "malformed" {
		lastClass := map[string]string{}
		anyEarlierBad := false
		for i, k := range d.Keys {
			e := entryTemplates[d.Entries[i]%len(entryTemplates)]
			if prev, ok := lastClass[k]; ok && prev == "malformed" {
				anyEarlierBad = true
			}
			lastClass[k] = e.Class
		}
		stillBad := false
		for k, c := range lastClass {
			if c == "malformed" || k == "" {
				stillBad = true
			}
		}
		if anyEarlierBad && !stillBad {
			class = "grey"
		}
	}
	if d.Tail != "" {
		data = append(data, d.Tail...)
		if strings.TrimSpace(d.Tail) != "" {
			class = "malformed"
		}
	}
	if d.Cut > 0 && len(data) > 0 {
		n := d.Cut % len(data)
		data = data[:n]
		if n == 0 {
			class = "empty"
		} else {
			class = "malformed" // a proper prefix of a JSON object is never valid JSON
		}
	}
	return data, class
}

// judgeCacheBytes starts a store on data and applies the oracle for class.
func judgeCacheBytes(data []byte, class string, info *h.Info) *h.Violation {
	svc := fake.NewSvc()
	declared := []string{"a", "b"}
	for _, n := range []string{"a", "b", "u", "v"} {
		svc.Set(n, 9, []byte("svc-"+n))
	}
	cache := fake.NewCache(data)
	var st *setec.Store
	var err error
	if v := h.Safely(func() *h.Violation {
		st, err = setec.NewStore(context.Background(), setec.StoreConfig{Client: svc, Secrets: append([]string{}, declared...), AllowLookup: true, Cache: cache, PollInterval: -1, Logf: nolog})
		return nil
	}); v != nil {
		v.Clause = "never-a-panic"
		v.Detail = fmt.Sprintf("NewStore with cache contents %q: %s", data, v.Detail)
		if bytes.Equal(bytes.TrimSpace(data), []byte("null")) {
			v.Sig = "never-a-panic/top-level-null"
		}
		return v
	}
	if err != nil {
		return h.V("never-a-failed-start", "NewStore failed on cache contents %q: %v", data, err)
	}
	defer st.Close()
	var top map[string]json.RawMessage
	topOK := json.Unmarshal(data, &top) == nil && top != nil
	fetched := map[string]bool{}
	for _, r := range svc.Log() {
		fetched[r.Name] = true
	}
	usedAny, usedAll := false, true
	var usedNames, ignoredNames []string
	for k := range top {
		if k == "a" || k == "b" {
			continue
		}
		if st.Secret(k) != nil {
			usedAny = true
			usedNames = append(usedNames, k)
		} else {
			usedAll = false
			ignoredNames = append(ignoredNames, k)
		}
	}
	for _, n := range declared {
		got := string(st.Secret(n).Get())
		_, inTop := top[n]
		if got != "svc-"+n {
			if !topOK || !inTop {
				return h.V("values-come-from-cache-or-service", "cache %q: declared %q yields %q, which neither the service nor a cache entry supplies", data, n, got)
			}
			usedAny = true
			usedNames = append(usedNames, n)
			if fetched[n] {
				return h.V("values-come-from-cache-or-service", "cache %q: %q was fetched and yet serves the cached value", data, n)
			}
		} else if inTop {
			usedAll = false
			ignoredNames = append(ignoredNames, n)
		}
	}
	sort.Strings(usedNames)
	sort.Strings(ignoredNames)
	if usedAny && !usedAll {
		return h.V("cache-used-as-a-whole-or-not-at-all", "cache %q: entries %v were used, entries %v ignored", data, usedNames, ignoredNames)
	}
	switch class {
	case "malformed":
		if usedAny {
			return h.V("malformed-cache-ignored-as-a-whole", "cache %q is not a well-formed document of the documented shape, yet entries %v were used", data, usedNames)
		}
		info.Class("malformed-ignored")
		if topOK {
			info.Class("malformed-but-unmarshal-succeeds")
		}
	case "valid":
		if len(top) > 0 && !usedAny {
			return h.V("valid-cache-is-used", "cache %q is well-formed, yet it was ignored (fetched: %v)", data, fetched)
		}
		info.Class("valid-used")
	case "empty":
		info.Class("empty")
	default:
		if usedAny {
			info.Class("grey-used")
		} else {
			info.Class("grey-ignored")
		}
	}
	return nil
}

func runC13Doc(t *testing.T, d DocCase) (*h.Violation, h.Info) {
	var info h.Info
	data, class := d.render()
	v := judgeCacheBytes(data, class, &info)
	info.Class("class-" + class)
	if d.Cut > 0 {
		info.Class("prefix")
	}
	for _, c := range info.Classes {
		if c == "malformed-but-unmarshal-succeeds" || c == "prefix" {
			info.NonTrivial = true
		}
	}
	if class == "valid" && len(d.Keys) > 0 {
		info.NonTrivial = true
	}
	return v, info
}

var c13doc = &h.Campaign[DocCase]{
	Prop: "C13", Sub: "documents",
	Rule:  "rapid: cache contents built as a top-level object of 0-4 entries over keys {a,b (declared), u,v (undeclared), \"\"} (duplicates possible), each entry drawn from 33 templates labelled valid / grey (extra, duplicate, case-variant or missing optional fields - either outcome allowed) / malformed (null or non-object entry, missing or null secret, wrong JSON types, bad base64, out-of-range version, non-numeric stamp), or a non-object top level (null, array, string, number, garbage), optionally with trailing bytes or cut to a proper prefix; oracle: never a panic or failed start; values come from the service or from a cache entry; all-or-nothing; malformed => ignored as a whole; valid => used; non-trivial = a malformed document on which JSON unmarshalling succeeds, a prefix, or a non-empty valid document; distinct by rendered bytes",
	Quick: 6000, Thorough: 3000000,
	Gen: func(rt *rapid.T) DocCase {
		d := DocCase{Top: rapid.SampledFrom([]string{"object", "object", "object", "object", "object", "object", "object", "object", "null", "array", "string", "number", "empty", "garbage"}).Draw(rt, "top")}
		n := rapid.IntRange(0, 4).Draw(rt, "n")
		mostlyValid := rapid.Bool().Draw(rt, "mostlyvalid")
		for i := 0; i < n; i++ {
			d.Keys = append(d.Keys, rapid.SampledFrom([]string{"a", "b", "u", "v", "a", "b", "u", ""}).Draw(rt, "key"))
			if mostlyValid && rapid.IntRange(0, 3).Draw(rt, "ok") != 0 {
				d.Entries = append(d.Entries, rapid.IntRange(0, 4).Draw(rt, "valid-entry"))
			} else {
				d.Entries = append(d.Entries, rapid.IntRange(0, len(entryTemplates)-1).Draw(rt, "entry"))
			}
		}
		switch rapid.IntRange(0, 9).Draw(rt, "post") {
		case 0:
			d.Cut = rapid.IntRange(1, 400).Draw(rt, "cut")
		case 1:
			d.Tail = rapid.SampledFrom([]string{" ", "\n", "x", "{}", "null", " ,"}).Draw(rt, "tail")
		}
		return d
	},
	Run: runC13Doc,
	Key: func(d DocCase) any { b, c := d.render(); return c + ":" + string(b) },
}

// every prefix of valid documents, exhaustively
func TestC13Prefixes(t *testing.T) {
	h.FirstShardOnly(t)
	rec := h.NewRec("C13", "prefixes", "every proper prefix of 3 valid cache documents (declared + undeclared entries): each must be ignored as a whole without panic or failed start; distinct by (document, length); all non-trivial")
	defer rec.Flush()
	docs := []DocCase{
		{Top: "object", Keys: []string{"a"}, Entries: []int{0}},
		{Top: "object", Keys: []string{"a", "b", "u"}, Entries: []int{0, 2, 4}},
		{Top: "object", Keys: []string{"u", "v"}, Entries: []int{1, 3}},
	}
	total := 0
	for di, d := range docs {
		full, _ := d.render()
		for n := 1; n < len(full); n++ {
			var info h.Info
			v := judgeCacheBytes(full[:n], "malformed", &info)
			total++
			if v != nil {
				dc := d
				dc.Cut = n
				p := h.WriteFailure("C13", "documents", v, dc)
				h.Report("C13", "documents", v, p)
				t.Fatalf("%s: %s", v.Clause, v.Detail)
			}
		}
		rec.AddSample(map[string]any{"document": string(full), "prefixes_tried": len(full) - 1, "doc": di})
	}
	rec.AddEvaluations(total)
	rec.Set("nontrivial_count_exact", total)
	rec.Exhaustive()
	rec.Completed()
}

// FileCache basics: atomic replacement is enumerated by the fault engine; here
// the permissions and directory creation.
func TestC13FileCacheModes(t *testing.T) {
	h.FirstShardOnly(t)
	rec := h.NewRec("C13", "filecache-modes", "FileCache under umask 0: directory created 0700, file written 0600, content read back byte-exact, for 7 payloads (one of 1.6 MB), two of them replacing a longer, world-readable file that is already there; each a non-trivial case")
	defer rec.Flush()
	old := syscall.Umask(0)
	defer syscall.Umask(old)
	dir := h.Scratch(t)
	for i, payload := range [][]byte{[]byte(`{}`), []byte(`{"a":{"secret":{"Value":"eA==","Version":1},"lastAccess":"0"}}`), bytes.Repeat([]byte("x"), 70000), {}, []byte(`{"b":{}}`), []byte(`{}`), bytes.Repeat([]byte("0123456789abcdef"), 100000)} {
		p := filepath.Join(dir, fmt.Sprintf("sub%d", i), "deeper", "cache.json")
		if i == 4 || i == 5 {
			// a file is already there, longer than the new contents and readable by everybody
			os.MkdirAll(filepath.Dir(p), 0o700)
			os.WriteFile(p, bytes.Repeat([]byte("old contents "), 20), 0o666)
			os.Chmod(p, 0o666)
		}
		fc, err := setec.NewFileCache(p)
		if err != nil {
			t.Fatalf("NewFileCache: %v", err)
		}
		var v *h.Violation
		if err := fc.Write(payload); err != nil {
			v = h.V("filecache-write", "Write: %v", err)
		} else if got, err := fc.Read(); err != nil || !bytes.Equal(got, payload) {
			v = h.V("filecache-roundtrip", "Read after Write: %v, %d bytes vs %d", err, len(got), len(payload))
		} else if st, _ := os.Stat(p); st.Mode().Perm() != 0o600 {
			v = h.V("owner-only-permissions", "cache file mode %o", st.Mode().Perm())
		} else if st, _ := os.Stat(filepath.Dir(p)); st.Mode().Perm() != 0o700 {
			v = h.V("owner-only-permissions", "cache directory mode %o", st.Mode().Perm())
		} else if ents, _ := os.ReadDir(filepath.Dir(p)); len(ents) != 1 {
			v = h.V("no-temporaries-left", "%d entries in the cache directory after a write", len(ents))
		}
		rec.Case(fmt.Sprint(i), h.Info{NonTrivial: true}, map[string]any{"payload_bytes": len(payload)})
		if v != nil {
			p := h.WriteFailure("C13", "filecache", v, i)
			h.Report("C13", "filecache", v, p)
			t.Fatalf("%s: %s", v.Clause, v.Detail)
		}
	}
	rec.Completed()
}

func init() { c13hist.Register(); c13doc.Register() }

func TestC13History(t *testing.T)   { c13hist.Check(t) }
func TestC13Documents(t *testing.T) { c13doc.Check(t) }

// Native fuzz target: arbitrary bytes as cache contents.
func FuzzC13CacheBytes(f *testing.F) {
	for _, s := range []string{
		`{"a":{"secret":{"Value":"Y2FjaGVk","Version":4},"lastAccess":"1700000000"}}`,
		`{"a":{"secret":{"Value":"Y2FjaGVk","Version":4},"lastAccess":"1"},"b":{"secret":{"Value":"eA==","Version":1},"lastAccess":"0"},"u":{"secret":{"Value":"eQ==","Version":2},"lastAccess":"9"}}`,
		`null`, `[]`, `{}`, `{"a":null}`, `{"a":{}}`, `{"a":{"secret":null}}`, `{"":{"secret":{"Value":"eA==","Version":1}}}`,
		`{"a":{"secret":{"Value":"eA==","Version":1},"lastAccess":7}}`, `{"u":{"secret":{"Value":"eA==","Version":1},"lastAccess":"x"}}`,
		`{"a":{"secret":{"Value":"eA==","Version":1}},"a":null}`, ` `, `{"a":{"secret":{"TextValue":"abc","Version":5}}}`,
		`{"alpha":{"secret":{"Version":1,"Value":"YWJj"}}}`, `{"alpha":{"secret":{"Version":1,"Value":"YWJj"},"lastAccess":"0"}}`,
	} {
		f.Add([]byte(s))
	}
	f.Fuzz(func(t *testing.T, data []byte) {
		var info h.Info
		if v := judgeCacheBytes(data, "unknown", &info); v != nil {
			p := h.WriteFailure("C13", "fuzzbytes", v, data)
			h.Report("C13", "fuzzbytes", v, p)
			t.Fatalf("%s: %s", v.Clause, v.Detail)
		}
	})
}

func init() {
	h.RegisterReplay("C13", "fuzzbytes", func(t *testing.T, raw json.RawMessage) *h.Violation {
		var data []byte
		if err := json.Unmarshal(raw, &data); err != nil {
			return h.V("replay-decode", "%v", err)
		}
		var info h.Info
		return judgeCacheBytes(data, "unknown", &info)
	})
}
