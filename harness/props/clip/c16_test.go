package clip

import (
	"sync/atomic"
	"context"
	"fmt"
	"strings"
	"testing"
	"testing/synctest"
	"time"

	"github.com/tailscale/setec/client/setec"
	"pgregory.net/rapid"
	"verifharness/fake"
	"verifharness/h"
	"verifharness/model"
)

// ---- C16: lookups: gated, single-flight, bounded --------------------------------

type LCaller struct {
	StartS int    `json:"start_s"` // start at StartS seconds + 100ms + index ms
	Ctx    string `json:"ctx"`     // bg (no deadline, cancellable only by the harness) | background (context.Background itself) | deadline | cancel
	TS     int    `json:"t_s"`     // deadline / cancel after TS seconds (relative to start)
	Entry  string `json:"entry"`   // lookup | updater | apply | secret
}

type LookupCase struct {
	Allow   bool      `json:"allow"`
	Kind    string    `json:"kind"`    // ok | err | hang | hang-then-ok
	DelayS  int       `json:"delay_s"` // answer delay for ok
	Callers []LCaller `json:"callers"`
	// the cache device is failing throughout (a failed flush is not a failed lookup)
	CacheFail bool `json:"cache_fail,omitempty"`
	// the store declares nothing at all (a lookup-only store) and polls through its own poller
	NoDeclared bool `json:"no_declared,omitempty"`
}

type lres struct {
	done     bool
	at       time.Duration
	err      error
	val      string
	panicked bool
	again    func() string // updater entries: reads the updater once more
	builds   *atomic.Int32 // updater entries: how often the builder ran
}

type applyTarget struct {
	X []byte `setec:"x"`
}

// a field that takes the secret through the JSON verb
type applyJSONTarget struct {
	J int `setec:"x,json"`
}

// the secret's value: valid JSON, so that every kind of field can take it
const xVal = "7"

func runC16(t *testing.T, c LookupCase) (v *h.Violation, info h.Info) {
	synctest.Test(t, func(t *testing.T) { v = runC16Bubble(c, &info) })
	return
}

func runC16Bubble(c LookupCase, info *h.Info) *h.Violation {
	svc := fake.NewSvc()
	svc.Set("d", 1, []byte("dv"))
	svc.Set("x", 3, []byte(xVal))
	cache := fake.NewCache(nil)
	cfg := setec.StoreConfig{Client: svc, Secrets: []string{"d"}, AllowLookup: c.Allow, Cache: cache, PollInterval: -1, Logf: nolog}
	var tick *chanTicker
	if c.NoDeclared && c.Allow {
		tick = newChanTicker()
		cfg.Secrets, cfg.PollInterval, cfg.PollTicker = nil, 0, tick
		info.Class("lookup-only-store-with-its-own-poller")
	}
	st, err := setec.NewStore(context.Background(), cfg)
	if err != nil {
		return h.V("harness", "NewStore: %v", err)
	}
	defer st.Close()
	if c.CacheFail {
		cache.SetFailing(true)
		info.Class("cache-device-failing")
	}
	switch c.Kind {
	case "ok":
		svc.SetDefault("x", fake.Beh{Kind: "ok", DelayMs: c.DelayS * 1000})
	case "err":
		svc.SetDefault("x", fake.Beh{Kind: "err"})
	case "err-nettimeout", "err-reqtimeout":
		// still a failing service: the request fails with a timeout-class network error, or with a
		// request-level timeout that wraps context.DeadlineExceeded although every caller's context is alive
		svc.SetDefault("x", fake.Beh{Kind: c.Kind[4:]})
	case "hang":
		svc.SetDefault("x", fake.Beh{Kind: "hang"})
	case "hang-then-ok":
		svc.SetScript("x", []fake.Beh{{Kind: "hang"}})
	}
	base, endRun := context.WithCancel(context.Background())
	defer endRun()
	l0 := svc.LogLen()
	t0 := time.Now()
	results := make([]lres, len(c.Callers))
	starts := make([]time.Duration, len(c.Callers))
	for i, cl := range c.Callers {
		starts[i] = time.Duration(cl.StartS)*time.Second + 100*time.Millisecond + time.Duration(i)*time.Millisecond
		go func() {
			time.Sleep(starts[i])
			ctx, cancel := base, context.CancelFunc(func() {})
			switch cl.Ctx {
			case "background":
				ctx = context.Background()
			case "deadline":
				ctx, cancel = context.WithTimeout(base, time.Duration(cl.TS)*time.Second)
			case "cancel":
				ctx, cancel = context.WithCancel(base)
				go func() {
					select {
					case <-time.After(time.Duration(cl.TS) * time.Second):
						cancel()
					case <-ctx.Done():
					}
				}()
			}
			defer cancel()
			r := lres{}
			func() {
				defer func() {
					if p := recover(); p != nil {
						r.panicked = true
					}
				}()
				switch cl.Entry {
				case "lookup":
					hd, err := st.LookupSecret(ctx, "x")
					r.err = err
					if err == nil {
						r.val = string(hd.Get())
					}
				case "updater":
					u, err := setec.NewUpdater(ctx, st, "x", func(b []byte) (string, error) { return string(b), nil })
					r.err = err
					if err == nil {
						r.val = u.Get()
						r.again = u.Get
					}
				case "applyjson":
					var tgt applyJSONTarget
					f, err := setec.ParseFields(&tgt, "")
					if err != nil {
						r.err = err
						break
					}
					r.err = f.Apply(ctx, st)
					r.val = fmt.Sprint(tgt.J)
				case "apply":
					var tgt applyTarget
					f, err := setec.ParseFields(&tgt, "")
					if err != nil {
						r.err = err
						break
					}
					r.err = f.Apply(ctx, st)
					r.val = string(tgt.X)
				case "secret":
					hd := st.Secret("x")
					if hd == nil {
						r.err = fmt.Errorf("Secret returned nil")
					} else {
						r.val = string(hd.Get())
					}
				}
			}()
			r.done, r.at = true, time.Since(t0)
			results[i] = r
		}()
	}
	time.Sleep(40 * time.Minute)
	synctest.Wait()
	// end whatever is still going on, so the bubble can finish
	stillRunning := false
	for _, r := range results {
		if !r.done {
			stillRunning = true
		}
	}
	svc.SetDefault("x", fake.Beh{Kind: "err"})
	svc.Release()
	if stillRunning {
		endRun()
		time.Sleep(time.Second)
		synctest.Wait()
	}
	reqs := svc.Log()[l0:]
	kinds := map[string]bool{}
	for _, cl := range c.Callers {
		kinds[cl.Ctx] = true
	}
	if c.Allow && len(c.Callers) >= 2 && len(kinds) >= 2 && (c.Kind == "hang" || c.Kind == "hang-then-ok" || (c.Kind == "ok" && c.DelayS >= 1)) {
		info.NonTrivial = true
		info.Class("mixed-contexts-on-slow-or-hanging-service")
	}
	info.Class("service-" + c.Kind)
	if !c.Allow {
		info.Class("lookups-disabled")
		info.NonTrivial = true
		for i, cl := range c.Callers {
			r := results[i]
			if !r.done {
				return h.V("all-callers-return", "caller %d %+v did not return with lookups disabled", i, cl)
			}
			if cl.Entry == "secret" {
				if !r.panicked {
					return h.V("disabled-unknown-name-refused", "Secret(unknown) with lookups disabled did not panic (err=%v val=%q)", r.err, r.val)
				}
			} else if r.err == nil || r.panicked {
				return h.V("disabled-unknown-name-refused", "caller %d via %s with lookups disabled: err=%v panicked=%v", i, cl.Entry, r.err, r.panicked)
			}
		}
		if len(reqs) != 0 {
			return h.V("disabled-sends-no-request", "lookups disabled, yet %d requests were sent", len(reqs))
		}
		return nil
	}
	if svc.MaxInflight("x") > 1 {
		return h.V("single-flight", "%d requests for one name were in flight at once", svc.MaxInflight("x"))
	}
	anyOK := false
	for i, cl := range c.Callers {
		r := results[i]
		if cl.Entry == "secret" {
			// Secret never fetches: nil for an unknown name (or a handle if someone else's lookup has landed)
			if r.panicked {
				return h.V("enabled-secret-does-not-panic", "Secret(name) panicked with lookups enabled")
			}
			continue
		}
		limit := 5 * time.Minute
		if cl.Ctx == "deadline" {
			limit = time.Duration(cl.TS) * time.Second
		}
		if !r.done {
			return h.V("all-callers-return", "caller %d %+v had not returned 40 minutes after the start (requests so far: %d)", i, cl, len(reqs))
		}
		took := r.at - starts[i]
		if (cl.Ctx == "bg" || cl.Ctx == "background") && took > 5*time.Minute {
			return h.V("no-deadline-caller-answered-within-five-minutes", "caller %d %+v (no deadline) returned after %v, err=%v; requests: %s", i, cl, took, r.err, fmtReqs(reqs))
		}
		if r.panicked {
			return h.V("never-a-panic", "caller %d %+v panicked", i, cl)
		}
		if r.err == nil {
			anyOK = true
			if r.val != xVal {
				return h.V("working-handle", "caller %d %+v got value %q, the service serves %q", i, cl, r.val, xVal)
			}
		}
		if strings.HasPrefix(c.Kind, "err") && r.err == nil {
			return h.V("failed-lookup-reported", "caller %d succeeded against a failing service", i)
		}
		if c.Kind == "ok" {
			// sufficient condition for success that does not depend on who wins the flight
			latestOther := time.Duration(0)
			for j, oc := range c.Callers {
				if j == i || oc.Entry == "secret" {
					continue
				}
				// when does caller j's context end at the latest? A caller WITH a deadline keeps it
				// (also beyond five minutes: the fallback only applies to contexts without one); a
				// cancellable context without deadline ends at its cancellation or at the five-minute
				// fallback, whichever comes first
				end := starts[j] + 5*time.Minute
				switch oc.Ctx {
				case "deadline":
					end = starts[j] + time.Duration(oc.TS)*time.Second
				case "cancel":
					if d := time.Duration(oc.TS) * time.Second; d < 5*time.Minute {
						end = starts[j] + d
					}
				}
				if end > latestOther {
					latestOther = end
				}
			}
			own := limit
			if cl.Ctx == "cancel" && time.Duration(cl.TS)*time.Second < own {
				own = time.Duration(cl.TS) * time.Second
			}
			from := starts[i]
			if latestOther > from {
				from = latestOther
			}
			delta := time.Duration(c.DelayS)*time.Second + time.Millisecond
			if from+delta < starts[i]+own && r.err != nil {
				return h.V("not-failed-by-anothers-cancellation", "caller %d %+v failed (%v) after %v although the service answers every request after %ds and its own limit is %v; requests: %s", i, cl, r.err, took, c.DelayS, own, fmtReqs(reqs))
			}
		}
	}
	if c.Kind == "hang-then-ok" {
		// Only the very first request hangs (until the context of the caller that sent it ends at E);
		// every later request is answered at once. So a caller whose own limit reaches beyond E must
		// end up with a handle: it either joined the first flight and retries after it failed with
		// SOMEBODY ELSE's context error, or it starts after E.
		lim := func(cl LCaller) time.Duration {
			if cl.Ctx == "deadline" || cl.Ctx == "cancel" {
				if d := time.Duration(cl.TS) * time.Second; d < 5*time.Minute || cl.Ctx == "deadline" {
					return d
				}
			}
			return 5 * time.Minute
		}
		first := -1
		for i, cl := range c.Callers {
			// (a caller whose context has already ended on entry may or may not get a request out: it is
			// neither counted as the one whose request hangs nor expected to succeed)
			if cl.Entry != "secret" && lim(cl) > 0 && (first < 0 || starts[i] < starts[first]) {
				first = i
			}
		}
		if first >= 0 {
			E := starts[first] + lim(c.Callers[first])
			for i, cl := range c.Callers {
				if i == first || cl.Entry == "secret" {
					continue
				}
				if end := starts[i] + lim(cl); lim(cl) > 0 && end > E+time.Second && results[i].done && results[i].err != nil {
					return h.V("not-failed-by-anothers-cancellation", "caller %d %+v failed (%v) although only the first request hangs (until %v, the end of caller %d's context) and its own limit reaches until %v; requests: %s", i, cl, results[i].err, E, first, end, fmtReqs(reqs))
				}
			}
			info.Class("first-request-hangs-then-service-answers")
		}
	}
	lone, anyEnded := 0, false
	for _, cl := range c.Callers {
		if cl.Entry != "secret" {
			lone++
			if cl.Ctx == "deadline" && cl.TS == 0 {
				anyEnded = true
			}
		}
	}
	if anyEnded {
		info.Class("a-caller-whose-context-had-ended-before-the-call")
	}
	if strings.HasPrefix(c.Kind, "err") {
		if lone == 1 && len(reqs) != 1 && !(anyEnded && len(reqs) == 0) {
			return h.V("no-automatic-retry", "a lone caller against a failing service caused %d requests", len(reqs))
		}
		if len(reqs) > lone {
			return h.V("no-automatic-retry", "%d callers against a failing service caused %d requests", lone, len(reqs))
		}
		if st.Secret("x") != nil {
			return h.V("failed-lookup-installs-nothing", "the secret is known after every lookup failed")
		}
		return nil
	}
	if anyOK {
		info.Class("lookup-succeeded")
		// thereafter polled and cached like any other
		if !c.CacheFail { // (a device that fails every write holds nothing to look at)
			doc, err := model.DecodeCacheStrict(cache.Data())
			if err != nil {
				return h.V("cached-after-lookup", "cache document: %v", err)
			}
			if e, ok := doc["x"]; !ok || e.Version != 3 || string(e.Value) != xVal {
				return h.V("cached-after-lookup", "after a successful lookup the cache document is %q", cache.Data())
			}
		}
		cache.SetFailing(false)
		svc.SetDefault("x", fake.Beh{Kind: "ok"})
		l1 := svc.LogLen()
		if tick != nil {
			// through the store's own poller
			select {
			case tick.ch <- time.Now():
				<-tick.done
			case <-time.After(time.Second):
				return h.V("polled-after-lookup", "a store that declares nothing looked a secret up, but no poller takes the next tick: the secret is never polled")
			}
		} else if err := st.Refresh(context.Background()); err != nil {
			return h.V("polled-after-lookup", "Refresh after lookup: %v", err)
		}
		polled := false
		for _, rq := range svc.Log()[l1:] {
			if rq.Name == "x" && rq.Op == "cond" && rq.Old == 3 {
				polled = true
			}
		}
		if !polled {
			return h.V("polled-after-lookup", "the looked-up secret is not polled by the next Refresh")
		}
		// ... and every caller that came in through NewUpdater - however many of them registered while
		// the one request was pending - follows the next version
		svc.Set("x", 4, []byte("8"))
		if err := st.Refresh(context.Background()); err != nil {
			return h.V("polled-after-lookup", "Refresh after a new version: %v", err)
		}
		nupd := 0
		for i, r := range results {
			if r.again == nil {
				continue
			}
			nupd++
			if got := r.again(); got != "8" {
				return h.V("polled-after-lookup", "caller %d obtained an updater through the lookup; after version 4 was installed by a poll its Get returns %q, want %q (%d callers in all)", i, got, "8", len(c.Callers))
			}
		}
		if nupd >= 2 {
			info.Class("several-updaters-from-one-lookup-follow-a-new-version")
		}
	} else if st.Secret("x") != nil && !anyEnded {
		// no caller obtained a handle, so every flight failed (the scripted service honours the
		// context of the request): nothing may have been installed. (A caller whose context had
		// ended before it called is told so - while the request it caused may well be answered.)
		return h.V("failed-lookup-installs-nothing", "every lookup reported an error, yet the secret is known to the store afterwards (service %s, cache failing=%v)", c.Kind, c.CacheFail)
	}
	return nil
}

func fmtReqs(rs []fake.Req) string {
	s := ""
	for i, r := range rs {
		if i >= 8 {
			s += fmt.Sprintf(" ... (%d total)", len(rs))
			break
		}
		s += fmt.Sprintf(" [%v %s]", r.At, r.Outcome)
	}
	return s
}

func genLookupCase(rt *rapid.T) LookupCase {
	c := LookupCase{
		Allow:      rapid.IntRange(0, 5).Draw(rt, "allow") != 0,
		Kind:       rapid.SampledFrom([]string{"ok", "ok", "err", "err-nettimeout", "err-reqtimeout", "hang", "hang", "hang-then-ok"}).Draw(rt, "kind"),
		DelayS:     rapid.SampledFrom([]int{0, 0, 1, 7, 30, 120, 299, 301, 400}).Draw(rt, "delay"),
		CacheFail:  rapid.IntRange(0, 4).Draw(rt, "cachefail") == 0,
		NoDeclared: rapid.IntRange(0, 4).Draw(rt, "nodeclared") == 0,
	}
	n := rapid.IntRange(1, 5).Draw(rt, "ncallers")
	for i := 0; i < n; i++ {
		cl := LCaller{
			StartS: rapid.SampledFrom([]int{0, 0, 0, 1, 5, 60, 200, 299, 301}).Draw(rt, "start"),
			Ctx:    rapid.SampledFrom([]string{"bg", "background", "deadline", "cancel"}).Draw(rt, "ctx"),
			TS:     rapid.SampledFrom([]int{0, 1, 2, 10, 100, 299, 301, 500, 900}).Draw(rt, "t"), // 0: a context that has already ended on entry
			Entry:  rapid.SampledFrom([]string{"lookup", "lookup", "lookup", "updater", "apply", "applyjson", "secret"}).Draw(rt, "entry"),
		}
		if cl.TS == 0 && cl.Ctx != "deadline" {
			cl.TS = 1 // (a cancellation "at once" would race with the call; a deadline of zero has passed for sure)
		}
		c.Callers = append(c.Callers, cl)
	}
	return c
}

var c16 = &h.Campaign[LookupCase]{
	Prop: "C16", Sub: "lookup",
	Rule:  "rapid + testing/synctest (virtual time, tie-free instants): AllowLookup on/off; service behaviour for the unknown name (answers after a delay, fails, hangs until the request context ends, hangs once then answers); 1-5 concurrent callers with start offsets, contexts (none, deadline, cancelled at T) and entry points (LookupSecret, NewUpdater, Fields.Apply on a []byte field and on a ,json field, Secret); in one case of five the cache device fails throughout (a failed flush is not a failed lookup, and when every lookup failed nothing may be known afterwards); observed over 40 virtual minutes; non-trivial = lookups disabled (refusal path), or >= 2 callers with different context kinds against a slow or hanging service; distinct by scenario",
	Quick: 3000, Thorough: 3000000,
	Gen: genLookupCase,
	Run: runC16,
}

func init() { c16.Register() }

func TestC16Lookup(t *testing.T) { c16.Check(t) }
