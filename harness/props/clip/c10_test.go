package clip

import (
	"encoding/json"
	"context"
	"fmt"
	"os"
	"path/filepath"
	"sort"
	"testing"
	"testing/synctest"
	"time"

	"github.com/tailscale/setec/client/setec"
	"pgregory.net/rapid"
	"verifharness/fake"
	"verifharness/h"
	"verifharness/model"
)

// ---- C10: store construction -------------------------------------------------

type NewStoreCase struct {
	Names     []string       `json:"names"`      // declared, duplicates allowed
	UseStruct bool           `json:"use_struct"` // additionally declare "s1","s2" through a tagged struct
	TwoStructs bool          `json:"two_structs"` // ... and through a second struct whose tags repeat those names (and each other)
	Fails     map[string]int `json:"fails"`      // per name: n>=0 transient failures before success; -1 hang until ctx; -2 permanent error; -3 one failure, then hang
	FailKind  string         `json:"fail_kind"`  // what a transient/permanent failure looks like: err | denied | notfound
	Cache     string         `json:"cache"`      // none | valid | invalid (syntax) | typeerr (well-formed JSON, wrong type somewhere) | readerr
	Cached    []string       `json:"cached"`     // names present in the cache document
	Stale     bool           `json:"stale"`      // cached versions are older than the service's
	Ctx       string         `json:"ctx"`        // bg | deadline | cancel | cancelled
	CtxMs     int            `json:"ctx_ms"`
	Client    string         `json:"client"` // svc | file
	FileHas   []string       `json:"file_has"`
	// FileBlank: names the secrets file lists with a version number but WITHOUT a value (an empty
	// "Value", an empty "TextValue", or neither key): such an entry may count as absent or as an empty
	// value - but never as something that makes construction succeed and the first read blow up
	FileBlank []string `json:"file_blank,omitempty"`
	PlainCtx  bool           `json:"plain_ctx"` // the client reports abandoned requests with an error that does not wrap the context's error
	Misconfig string         `json:"misconfig"` // "" | nilclient | nonames | emptyname (last) | emptyfirst | emptymid
	ExpiryS   int            `json:"expiry_s"`  // StoreConfig.ExpiryAge in seconds (0 = none)
	StampAgo  int            `json:"stamp_ago"` // cached entries were last accessed this many seconds ago (-1 = stamp 0)
	// Embed: the tagged struct carries s1 in an EMBEDDED struct (promoted field) instead of directly
	Embed bool `json:"embed,omitempty"`
	// Many: this many further secrets m00, m01, ... are declared (the first ManyCached of them are in the cache)
	Many       int `json:"many,omitempty"`
	ManyCached int `json:"many_cached,omitempty"`
	// Lookup: StoreConfig.AllowLookup is set (it has no bearing on construction)
	Lookup bool `json:"lookup,omitempty"`
	// Conns > 0: the store talks to the service through the real setec.Client over a transport that
	// keeps at most this many connections (a busy connection is one whose reply has not been consumed)
	Conns int `json:"conns,omitempty"`
}

// TaggedInner is embedded in taggedEmb: its tagged field is declared through promotion.
type TaggedInner struct {
	S1 []byte `setec:"s1"`
}

type taggedEmb struct {
	TaggedInner
	S2 string `setec:"s2"`
}

var c10Pool = []string{"a", "b", "c", "d"}

type tagged struct {
	S1 []byte `setec:"s1"`
	S2 string `setec:"s2"`
}

// a second struct naming secrets that are named already: twice within itself and once more across structs
type taggedAgain struct {
	A []byte `setec:"s2"`
	B string `setec:"s2"`
	C string `setec:"s1"`
	// names that occur only in this struct, twice, and sort before the ones collected so far
	D []byte `setec:"b2"`
	E string `setec:"b2"`
	F string `setec:"0first"`
	G []byte `setec:"0first"`
}

func genNewStoreCase(rt *rapid.T) NewStoreCase {
	c := NewStoreCase{Fails: map[string]int{}}
	c.Names = rapid.SliceOfN(rapid.SampledFrom(c10Pool), 1, 6).Draw(rt, "names")
	c.UseStruct = rapid.IntRange(0, 3).Draw(rt, "struct") == 0
	c.TwoStructs = c.UseStruct && rapid.Bool().Draw(rt, "twostructs")
	for _, n := range append(append([]string{}, c10Pool...), "s1", "s2", "b2", "0first") {
		c.Fails[n] = rapid.SampledFrom([]int{0, 0, 0, 1, 2, 5, 13, 16, -1, -2, -3}).Draw(rt, "fails-"+n)
	}
	c.Cache = rapid.SampledFrom([]string{"none", "valid", "valid", "valid", "invalid", "typeerr", "typeerr", "nullsib", "readerr"}).Draw(rt, "cache")
	c.FailKind = rapid.SampledFrom([]string{"err", "err", "denied", "notfound", "reqtimeout", "nettimeout"}).Draw(rt, "failkind")
	c.PlainCtx = rapid.IntRange(0, 2).Draw(rt, "plainctx") == 0
	c.Cached = rapid.SliceOfNDistinct(rapid.SampledFrom(append(append([]string{}, c10Pool...), "s1", "s2", "zz", "b2", "0first")), 0, 9, func(s string) string { return s }).Draw(rt, "cached")
	c.Stale = rapid.Bool().Draw(rt, "stale")
	c.Ctx = rapid.SampledFrom([]string{"bg", "bg", "deadline", "deadline", "cancel", "cancelled"}).Draw(rt, "ctx")
	c.CtxMs = rapid.SampledFrom([]int{3, 250, 4000, 10007, 60011}).Draw(rt, "ctxms")
	c.Client = rapid.SampledFrom([]string{"svc", "svc", "svc", "file"}).Draw(rt, "client")
	if rapid.IntRange(0, 2).Draw(rt, "withblank") == 0 {
		c.FileBlank = rapid.SliceOfNDistinct(rapid.SampledFrom(append(append([]string{}, c10Pool...), "s1", "s2")), 1, 3, func(s string) string { return s }).Draw(rt, "fileblank")
	}
	c.FileHas = rapid.SliceOfNDistinct(rapid.SampledFrom(append(append([]string{}, c10Pool...), "s1", "s2", "b2", "0first")), 0, 8, func(s string) string { return s }).Draw(rt, "filehas")
	c.Misconfig = rapid.SampledFrom([]string{"", "", "", "", "", "", "nilclient", "nonames", "emptyname", "emptyfirst", "emptymid"}).Draw(rt, "misconfig")
	c.ExpiryS = rapid.SampledFrom([]int{0, 0, 10, 3600}).Draw(rt, "expiry")
	c.StampAgo = rapid.SampledFrom([]int{-1, 0, 5, 11, 100000}).Draw(rt, "stampago")
	c.Embed = c.UseStruct && rapid.Bool().Draw(rt, "embed")
	c.Many = rapid.SampledFrom([]int{0, 0, 0, 0, 17, 33, 70}).Draw(rt, "many")
	if c.Many > 0 {
		c.ManyCached = rapid.SampledFrom([]int{0, 0, 5, c.Many / 2}).Draw(rt, "manycached")
	}
	c.Lookup = rapid.IntRange(0, 2).Draw(rt, "lookup") == 0
	c.Conns = rapid.SampledFrom([]int{0, 0, 1, 2, 4}).Draw(rt, "conns")
	return c
}

type nsOut struct {
	st  *setec.Store
	err error
	at  time.Duration
	pan any
}

func runC10(t *testing.T, c NewStoreCase) (v *h.Violation, info h.Info) {
	dir := h.Scratch(t)
	defer os.RemoveAll(dir)
	synctest.Test(t, func(t *testing.T) {
		var again func() *h.Violation
		v = runC10Bubble(dir, c, &info, &again)
		if v == nil && again != nil {
			v = again()
		}
	})
	return v, info
}

func runC10Bubble(dir string, c NewStoreCase, info *h.Info, again *func() *h.Violation) *h.Violation {
	svc := fake.NewSvc()
	svc.PlainCtxErrors = c.PlainCtx
	all := append(append([]string{}, c10Pool...), "s1", "s2", "zz", "b2", "0first")
	var many []string
	for i := 0; i < c.Many; i++ {
		many = append(many, fmt.Sprintf("m%02d", i))
	}
	all = append(all, many...)
	if c.Many > 0 {
		info.Class(fmt.Sprintf("more-than-%d-declared-secrets", c.Many/10*10))
	}
	fk := c.FailKind
	if fk == "" {
		fk = "err"
	}
	for _, n := range all {
		svc.Set(n, 5, []byte("svc-"+n))
		f := c.Fails[n]
		switch {
		case f == -1:
			svc.SetDefault(n, fake.Beh{Kind: "hang"})
		case f == -2:
			svc.SetDefault(n, fake.Beh{Kind: fk})
		case f == -3:
			// one failure, and the attempt after it is never answered
			svc.SetScript(n, []fake.Beh{{Kind: fk}})
			svc.SetDefault(n, fake.Beh{Kind: "hang"})
		case f > 0:
			sc := make([]fake.Beh, f)
			for i := range sc {
				sc[i] = fake.Beh{Kind: fk}
			}
			svc.SetScript(n, sc)
		}
	}
	cacheValid := c.Cache == "valid"
	var cache *fake.Cache
	cachedVer := uint32(5)
	if c.Stale {
		cachedVer = 2
	}
	if c.Cache != "none" {
		doc := model.CacheDoc{}
		for _, n := range append(append([]string{}, c.Cached...), many[:min(c.ManyCached, len(many))]...) {
			la := int64(0)
			if c.StampAgo >= 0 {
				la = time.Now().Unix() - int64(c.StampAgo)
			}
			doc[n] = model.CacheEntry{Version: cachedVer, Value: []byte("cache-" + n), LastAccess: la}
			if n == "zz" {
				// an undeclared sibling whose value is the empty byte string: a legal value, a valid entry
				doc[n] = model.CacheEntry{Version: cachedVer, Value: []byte{}, LastAccess: la}
				info.Class("cache-holds-an-empty-valued-entry")
			}
		}
		data := model.EncodeCache(doc)
		switch c.Cache {
		case "invalid":
			data = append(data[:len(data)-1], []byte(`,"broken":null}`)...)
		case "nullsib":
			// a JSON null where an entry should be, under a name nobody declared: not a document of the
			// documented shape, so none of it is a valid cache
			if len(doc) == 0 {
				data = []byte(`{"ghost":null}`)
			} else {
				data = append(data[:len(data)-1], []byte(`,"ghost":null}`)...)
			}
			info.Class("cache-with-a-null-entry")
		case "typeerr":
			// well-formed JSON, but one sibling entry (or one field of one entry) has the wrong JSON type:
			// the document as a whole does not decode, so none of it is a valid cache
			extra := []string{`"zuul":[1,2,3]`, `"zuul":{"secret":17,"lastAccess":"0"}`, `"zuul":{"secret":{"Version":"seven","Value":"eA=="},"lastAccess":"0"}`, `"0zuul":"x"`}[(len(c.Cached)+len(c.Names))%4]
			if len(doc) == 0 {
				data = []byte("{" + extra + "}")
			} else {
				data = append(data[:len(data)-1], []byte(","+extra+"}")...)
			}
			info.Class("cache-well-formed-but-undecodable")
		}
		cache = fake.NewCache(data)
		cache.FailRead = c.Cache == "readerr"
	}
	inCache := func(n string) bool {
		if !cacheValid {
			return false
		}
		for _, x := range c.Cached {
			if x == n {
				return true
			}
		}
		for _, x := range many[:min(c.ManyCached, len(many))] {
			if x == n {
				return true
			}
		}
		return false
	}
	cfg := setec.StoreConfig{Secrets: append(append([]string{}, c.Names...), many...), AllowLookup: c.Lookup, PollInterval: time.Hour, Logf: nolog, ExpiryAge: time.Duration(c.ExpiryS) * time.Second}
	if c.ExpiryS > 0 && cacheValid && len(c.Cached) > 0 && (c.StampAgo < 0 || c.StampAgo > c.ExpiryS) {
		info.Class("stale-stamps-with-expiry-age")
	}
	if cache != nil {
		cfg.Cache = cache
	}
	var tg tagged
	var tgE taggedEmb
	var tg2 taggedAgain
	declared := map[string]bool{}
	for _, n := range append(append([]string{}, c.Names...), many...) {
		declared[n] = true
	}
	if c.UseStruct {
		cfg.Structs = []setec.Struct{{Value: &tg}}
		if c.Embed {
			cfg.Structs = []setec.Struct{{Value: &tgE}}
			info.Class("struct-tag-on-a-promoted-field")
		}
		if c.TwoStructs {
			cfg.Structs = append(cfg.Structs, setec.Struct{Value: &tg2})
			info.Class("struct-tags-repeat-names")
			declared["b2"], declared["0first"] = true, true
		}
		declared["s1"], declared["s2"] = true, true
		info.Class("struct-declared")
	}
	fileHas, fileBlank := map[string]bool{}, map[string]bool{}
	switch c.Client {
	case "svc":
		cfg.Client = svc
		if c.Conns > 0 {
			// through the real setec.Client over a transport with a bounded number of connections
			cfg.Client = svc.WireConns(c.Conns)
			info.Class("real-client-over-a-bounded-transport")
		}
	case "file":
		doc := model.CacheDoc{}
		for _, n := range c.FileHas {
			doc[n] = model.CacheEntry{Version: 7, Value: []byte("file-" + n)}
			fileHas[n] = true
		}
		p := filepath.Join(dir, "secrets.json")
		raw := model.EncodeCache(doc)
		if len(c.FileBlank) > 0 {
			var m map[string]json.RawMessage
			if err := json.Unmarshal(raw, &m); err != nil {
				return h.V("harness", "secrets file: %v", err)
			}
			for i, n := range c.FileBlank {
				if !fileHas[n] {
					m[n] = json.RawMessage([]string{`{"secret":{"Version":4,"Value":""}}`, `{"secret":{"Version":2,"TextValue":""}}`, `{"secret":{"Version":7}}`}[(i+len(c.FileHas))%3])
					fileBlank[n] = true
				}
			}
			raw, _ = json.Marshal(m)
			info.Class("file-client-with-value-less-entries")
		}
		os.WriteFile(p, raw, 0o600)
		fc, err := setec.NewFileClient(p)
		if err != nil {
			return h.V("harness", "NewFileClient: %v", err)
		}
		cfg.Client = fc
		info.Class("file-client")
	}
	switch c.Misconfig {
	case "nilclient":
		cfg.Client = nil
	case "nonames":
		cfg.Secrets, cfg.Structs = nil, nil
	case "emptyname":
		cfg.Secrets = append(cfg.Secrets, "")
	case "emptyfirst":
		cfg.Secrets = append([]string{""}, cfg.Secrets...)
	case "emptymid":
		cfg.Secrets = append(append(append([]string{}, cfg.Secrets[:1]...), "", ""), cfg.Secrets[1:]...)
	}
	// every context derives from one the harness can end, so that a construction
	// that would legitimately retry forever can be stopped after the observation window
	base, endRun := context.WithCancel(context.Background())
	defer endRun()
	ctx, cancel := base, context.CancelFunc(func() {})
	ctxEnd := time.Duration(-1)
	switch c.Ctx {
	case "deadline":
		ctxEnd = time.Duration(c.CtxMs)*time.Millisecond + 300*time.Microsecond
		ctx, cancel = context.WithTimeout(ctx, ctxEnd)
	case "cancel":
		ctxEnd = time.Duration(c.CtxMs)*time.Millisecond + 300*time.Microsecond
		ctx, cancel = context.WithCancel(ctx)
		go func() {
			select {
			case <-time.After(ctxEnd):
				cancel()
			case <-ctx.Done():
			}
		}()
	case "cancelled":
		ctxEnd = 0
		ctx, cancel = context.WithCancel(ctx)
		cancel()
	}
	defer cancel()
	ch := make(chan nsOut, 1)
	t0 := time.Now()
	go func() {
		var o nsOut
		defer func() {
			if r := recover(); r != nil {
				o.pan = r
			}
			o.at = time.Since(t0)
			ch <- o
		}()
		o.st, o.err = setec.NewStore(ctx, cfg)
	}()
	var o nsOut
	neverReturned := false
	select {
	case o = <-ch:
	case <-time.After(time.Hour):
		neverReturned = true
		svc.Release()
		endRun()
		o = <-ch
	}
	if o.st != nil {
		defer o.st.Close()
	}
	if c.Misconfig == "" && c.Client == "svc" && !neverReturned && o.pan == nil {
		// A program constructs a store from the SAME configuration value a second time (another
		// attempt after the first one's context ended, a second component sharing the configuration):
		// the service is healthy now, so this attempt must succeed with a value for every declared
		// secret - whatever the first attempt did with the configuration it was handed.
		*again = func() *h.Violation {
			for _, n := range all {
				svc.SetScript(n, nil)
				svc.SetDefault(n, fake.Beh{Kind: "ok"})
			}
			var st2 *setec.Store
			var err2 error
			if v := h.Safely(func() *h.Violation { st2, err2 = setec.NewStore(context.Background(), cfg); return nil }); v != nil {
				return h.V("never-a-panic", "a second NewStore with the same configuration value panicked: %s", v.Detail)
			}
			if err2 != nil {
				return h.V("retries-until-success-or-context-end", "a second NewStore with the SAME StoreConfig value (declared names %q; first attempt: err=%v) fails although the service now answers every request: %v", c.Names, o.err, err2)
			}
			defer st2.Close()
			for n := range declared {
				hd := st2.Secret(n)
				if hd == nil {
					return h.V("value-for-every-declared-secret", "second NewStore with the same configuration value: %q has no handle", n)
				}
				if got := string(hd.Get()); got != "svc-"+n && got != "cache-"+n {
					return h.V("value-for-every-declared-secret", "second NewStore with the same configuration value: %q yields %q", n, got)
				}
			}
			info.Class("constructed-again-from-the-same-configuration-value")
			return nil
		}
	}
	if o.pan != nil {
		return h.V("never-a-panic", "NewStore panicked: %v", o.pan)
	}
	if svc.Overrun() {
		return h.V("returns-promptly-when-context-ends", "NewStore sent more than 50000 requests without returning (ctx=%s, ends at %v): it is spinning", c.Ctx, ctxEnd)
	}
	reqs := svc.Log()
	if c.Misconfig == "nonames" && c.Lookup && cfg.Client != nil {
		// no declared secrets but lookups allowed: a legitimate (lookup-only) store, built without a request
		info.Class("lookup-only-store")
		if o.err != nil || neverReturned || len(reqs) != 0 {
			return h.V("succeeds-when-all-values-available", "no declared secrets, lookups allowed: err=%v never-returned=%v requests=%d", o.err, neverReturned, len(reqs))
		}
		return nil
	}
	if c.Misconfig != "" {
		info.Class("misconfigured")
		if o.err == nil || neverReturned || o.at != 0 || len(reqs) != 0 {
			return h.V("misconfiguration-is-an-error", "misconfiguration %q: err=%v at=%v never-returned=%v requests=%d", c.Misconfig, o.err, o.at, neverReturned, len(reqs))
		}
		return nil
	}
	// which names must be fetched, and can they be?
	need := map[string]bool{}
	for n := range declared {
		if !inCache(n) {
			need[n] = true
		}
	}
	if c.Client == "file" {
		missing := 0
		for n := range need {
			if !fileHas[n] {
				missing++
			}
		}
		blank := 0
		for n := range need {
			if fileBlank[n] {
				blank++
				missing-- // listed, without a value: judged separately
			}
		}
		if missing == 0 && blank > 0 {
			info.Class("file-client-lists-a-needed-secret-without-a-value")
			info.NonTrivial = true
			if o.err != nil {
				// counted as absent: then the failure is immediate, like for any absent secret
				if c.Ctx != "cancelled" && (o.at != 0 || neverReturned) {
					return h.V("fails-at-once-with-file-client", "file client lists %d needed secrets without a value: err=%v after %v (never returned=%v)", blank, o.err, o.at, neverReturned)
				}
				return nil
			}
			// counted as empty values: then every handle works and yields what the file says
			for n := range declared {
				want := "file-" + n
				if inCache(n) {
					want = "cache-" + n
				} else if fileBlank[n] {
					want = ""
				}
				var got string
				if v := h.Safely(func() *h.Violation { got = string(o.st.Secret(n).Get()); return nil }); v != nil {
					return h.V("value-for-every-declared-secret", "NewStore succeeded from a secrets file that lists %q with a version but no value, and reading a handle panicked: %s", n, v.Detail)
				}
				if got != want {
					return h.V("value-for-every-declared-secret", "%q: handle yields %q, want %q", n, got, want)
				}
			}
			return nil
		}
		if missing > 0 {
			info.Class("file-client-missing-secret")
			info.NonTrivial = true
			if c.Ctx == "cancelled" {
				if o.err == nil {
					return h.V("fails-at-once-with-file-client", "file client lacks %d declared secrets but NewStore succeeded", missing)
				}
				return nil
			}
			if o.err == nil || o.at != 0 || neverReturned {
				return h.V("fails-at-once-with-file-client", "file client lacks %d declared secrets: err=%v after %v (never returned=%v)", missing, o.err, o.at, neverReturned)
			}
			return nil
		}
		if o.err != nil && c.Ctx != "cancelled" {
			return h.V("succeeds-when-all-values-available", "file client has every needed secret but NewStore failed: %v", o.err)
		}
		if o.err == nil {
			for n := range declared {
				want := "file-" + n
				if inCache(n) {
					want = "cache-" + n
				}
				if got := string(o.st.Secret(n).Get()); got != want {
					return h.V("value-for-every-declared-secret", "%q: handle yields %q, want %q", n, got, want)
				}
			}
		}
		return nil
	}
	rounds, impossible := 1, false
	for n := range need {
		f := c.Fails[n]
		if f < 0 {
			impossible = true
		} else if f+1 > rounds {
			rounds = f + 1
		}
	}
	if len(need) == 0 {
		info.Class("complete-cache")
	} else if cacheValid && len(c.Cached) > 0 {
		info.Class("partial-cache")
	}
	// request bookkeeping
	okCount, calls := map[string]int{}, map[string]int{}
	var times []time.Duration
	for _, r := range reqs {
		if r.Outcome == "error:released" {
			continue
		}
		calls[r.Name]++
		if ctxEnd < 0 || r.At < ctxEnd {
			// (a request that only gets onto a bounded transport when the context has ended and a
			// connection comes free is not a "fetch attempt" whose spacing says anything)
			times = append(times, r.At)
		}
		if len(r.Outcome) > 6 && r.Outcome[:6] == "value:" {
			okCount[r.Name]++
		}
	}
	for n, k := range okCount {
		if k > 1 {
			return h.V("never-refetches-an-obtained-secret", "%q was fetched successfully %d times", n, k)
		}
	}
	for n := range calls {
		if !need[n] {
			return h.V("cached-secrets-not-fetched", "%q was requested although %s", n, map[bool]string{true: "a valid cache supplied it", false: "it is not declared"}[declared[n]])
		}
	}
	sort.Slice(times, func(i, j int) bool { return times[i] < times[j] })
	for i := 1; i < len(times); i++ {
		if g := times[i] - times[i-1]; g > 10*time.Second && !neverReturned {
			return h.V("pauses-at-most-a-few-seconds", "gap of %v between consecutive fetch attempts (at %v and %v)", g, times[i-1], times[i])
		}
	}
	bound := time.Duration(rounds-1) * 10 * time.Second
	finishable := !impossible && (ctxEnd < 0 || bound < ctxEnd)
	switch {
	case neverReturned:
		if c.Ctx == "bg" && impossible {
			info.Class("legitimately-never-ending")
			return nil // retries forever, as documented; the harness ended it
		}
		return h.V("returns-when-done-or-context-ends", "NewStore had not returned after 1h (ctx=%s end=%v, rounds needed=%d, impossible=%v)", c.Ctx, ctxEnd, rounds, impossible)
	case o.err == nil:
		info.Class("constructed")
		if impossible {
			return h.V("value-for-every-declared-secret", "NewStore succeeded although a needed secret can never be fetched")
		}
		if len(need) == 0 && len(reqs) != 0 {
			return h.V("complete-cache-means-no-request", "complete cache, yet %d requests were sent", len(reqs))
		}
		for n := range declared {
			want := "svc-" + n
			if inCache(n) {
				want = "cache-" + n
			}
			var hd setec.Secret
			var got string
			if v := h.Safely(func() *h.Violation {
				if hd = o.st.Secret(n); hd != nil {
					got = string(hd.Get())
				}
				return nil
			}); v != nil {
				return h.V("value-for-every-declared-secret", "NewStore succeeded with %d declared secrets, but obtaining and reading the handle of %q panics: %s", len(declared), n, v.Detail)
			}
			if hd == nil {
				return h.V("value-for-every-declared-secret", "%q has no handle", n)
			}
			if got != want {
				return h.V("value-for-every-declared-secret", "%q: handle yields %q, want %q", n, got, want)
			}
		}
		if c.UseStruct {
			w1, w2 := "svc-s1", "svc-s2"
			if inCache("s1") {
				w1 = "cache-s1"
			}
			if inCache("s2") {
				w2 = "cache-s2"
			}
			if c.Embed {
				tg.S1, tg.S2 = tgE.S1, tgE.S2
			}
			if string(tg.S1) != w1 || tg.S2 != w2 {
				return h.V("value-for-every-declared-secret", "struct fields hold %q,%q want %q,%q", tg.S1, tg.S2, w1, w2)
			}
			if c.TwoStructs && (string(tg2.A) != w2 || tg2.B != w2 || tg2.C != w1) {
				return h.V("value-for-every-declared-secret", "fields of the second struct hold %q,%q,%q want %q,%q,%q", tg2.A, tg2.B, tg2.C, w2, w2, w1)
			}
			if c.TwoStructs {
				wb, wf := "svc-b2", "svc-0first"
				if inCache("b2") {
					wb = "cache-b2"
				}
				if inCache("0first") {
					wf = "cache-0first"
				}
				if string(tg2.D) != wb || tg2.E != wb || tg2.F != wf || string(tg2.G) != wf {
					return h.V("value-for-every-declared-secret", "fields of the second struct hold %q,%q,%q,%q want %q,%q,%q,%q", tg2.D, tg2.E, tg2.F, tg2.G, wb, wb, wf, wf)
				}
			}
		}
		if o.at > bound {
			return h.V("pauses-at-most-a-few-seconds", "construction needing %d rounds took %v (bound %v)", rounds, o.at, bound)
		}
		if rounds >= 2 && cacheValid && len(c.Cached) > 0 {
			info.NonTrivial = true
			info.Class("multi-round-with-partial-cache")
		}
	default:
		info.Class("ended-by-context")
		info.NonTrivial = true
		if ctxEnd < 0 {
			return h.V("retries-until-success-or-context-end", "NewStore failed with a background context: %v", o.err)
		}
		if finishable && c.Ctx != "cancelled" {
			return h.V("retries-until-success-or-context-end", "every needed secret is available within %d rounds (<= %v) but NewStore failed at %v with context end %v: %v", rounds, bound, o.at, ctxEnd, o.err)
		}
		if o.at > ctxEnd {
			return h.V("returns-promptly-when-context-ends", "context ended at %v, NewStore returned at %v", ctxEnd, o.at)
		}
		if o.at < ctxEnd {
			return h.V("retries-until-success-or-context-end", "NewStore gave up at %v, before its context ended at %v: %v", o.at, ctxEnd, o.err)
		}
	}
	return nil
}

var c10 = &h.Campaign[NewStoreCase]{
	Prop: "C10", Sub: "newstore",
	Rule: "rapid + testing/synctest (virtual time): declared names (1-6 from a pool of 4, duplicates frequent, optionally two more through a tagged struct), cache class (none / valid with any subset of names, fresh or stale versions / syntactically invalid document / well-formed document with a wrongly typed sibling entry next to entries for declared names / Read error), per-name service script (k transient failures then success, hang until the context ends, permanent error; failures are a plain error, access-denied, not-found, a request-level timeout that wraps context.DeadlineExceeded while the caller's context is alive, or a timeout-class network error), context (background, deadline, cancelled at T, already cancelled; instants off the back-off grid), client kind (scripted service or FileClient holding any subset), misconfigurations (nil client, no names, an empty name first / in the middle / last); a secrets file may list names with a version but without a value (then: absent, or an empty value - never a store whose first read panics); non-trivial = construction that needed >= 2 rounds with a partially valid cache, or ended by context expiry, or a FileClient lacking a declared secret; distinct by scenario",
	Quick: 4000, Thorough: 2000000,
	Gen:   genNewStoreCase,
	Run:   runC10,
}

func init() { c10.Register() }

func TestC10NewStore(t *testing.T) { c10.Check(t) }

var _ = fmt.Sprintf
