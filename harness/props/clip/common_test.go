package clip

import (
	"testing"

	"verifharness/h"
)

func TestReplay(t *testing.T) {
	h.Replay(t, "C10", "C11", "C12", "C13", "C15", "C16", "C19", "C20")
}

func nolog(string, ...any) {}
