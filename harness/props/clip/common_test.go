package clip

import (
	"testing"

	"github.com/tailscale/setec/client/setec"
	"verifharness/fake"
	"verifharness/h"
)

func TestReplay(t *testing.T) {
	h.Replay(t, "C10", "C11", "C12", "C13", "C15", "C16", "C19", "C20")
}

func nolog(string, ...any) {}

// storeClient is what a store is configured with: the scripted service itself, or (wire) the real
// setec.Client speaking HTTP to it, which puts client.go under the same oracles.
func storeClient(svc *fake.Svc, wire bool) setec.StoreClient {
	if wire {
		return svc.Wire()
	}
	return svc
}
