package clip

import (
	"context"
	"encoding/json"
	"fmt"
	"github.com/tailscale/setec/types/api"
	"io"
	"net"
	"net/http"
	"sort"
	"strings"
	"sync"
	"sync/atomic"
	"syscall"
	"testing"
	"testing/synctest"
	"time"

	"github.com/tailscale/setec/client/setec"
	"pgregory.net/rapid"
	"verifharness/fake"
	"verifharness/h"
	"verifharness/model"
)

// ---- C16: a waiting caller sits through SEVERAL successive winners that give up ---------------
//
// All callers look up the same unknown name.  The first K requests that reach the service
// hang; the harness learns from the request's context WHICH caller's request it is (the
// winner of the current flight) and cancels exactly that caller a little later.  After K
// such winners the service answers.  Every caller the harness never cancelled must obtain
// a working handle, however many winners came and went while it was waiting.

type callerKey struct{}

type WinnersCase struct {
	Entries []string `json:"entries"` // per caller: lookup | updater | apply
	Hangs   int      `json:"hangs"`   // the first Hangs requests hang until their owner is cancelled
	AfterS  int      `json:"after_s"` // the owner is cancelled this many seconds after its request arrived
	Stagger []int    `json:"stagger"` // caller i starts Stagger[i%len] ms after the previous one
	// Moving: the service activates a further version of the name at every request it answers, so that
	// successive answered flights for the one name fetch DIFFERENT versions (C15 sub-campaign).
	Moving bool `json:"moving,omitempty"`
}

func movingVal(k int) string {
	if k == 0 {
		return xVal
	}
	return fmt.Sprintf("moved-%d", k)
}

func runC16Winners(t *testing.T, c WinnersCase) (v *h.Violation, info h.Info) {
	synctest.Test(t, func(t *testing.T) { v = runC16WinnersBubble(c, &info, "C16") })
	return
}

func runC16WinnersBubble(c WinnersCase, info *h.Info, prop string) *h.Violation {
	svc := fake.NewSvc()
	svc.Set("d", 1, []byte("dv"))
	svc.Set("x", 3, []byte(xVal))
	st, err := setec.NewStore(context.Background(), setec.StoreConfig{Client: svc, Secrets: []string{"d"}, AllowLookup: true, PollInterval: -1, Logf: nolog})
	if err != nil {
		return h.V("harness", "NewStore: %v", err)
	}
	defer st.Close()
	n := len(c.Entries)
	base, endRun := context.WithCancel(context.Background())
	defer endRun()
	cancels := make([]context.CancelFunc, n)
	ctxs := make([]context.Context, n)
	for i := range ctxs {
		ctxs[i], cancels[i] = context.WithCancel(context.WithValue(base, callerKey{}, i))
		defer cancels[i]()
	}
	var mu sync.Mutex
	cancelled := map[int]bool{}
	var owners []int
	hangs := make([]fake.Beh, c.Hangs)
	for i := range hangs {
		hangs[i] = fake.Beh{Kind: "hang"}
	}
	svc.SetScript("x", hangs)
	l0 := svc.LogLen()
	svc.OnCtx = func(ctx context.Context, k int, name string) {
		if name != "x" {
			return
		}
		id, ok := ctx.Value(callerKey{}).(int)
		if !ok {
			return
		}
		mu.Lock()
		nth := len(owners)
		owners = append(owners, id)
		mu.Unlock()
		if c.Moving && nth >= c.Hangs {
			k := nth - c.Hangs
			svc.Set("x", uint32(3+k), []byte(movingVal(k)))
		}
		if nth < c.Hangs {
			go func() {
				select {
				case <-time.After(time.Duration(c.AfterS)*time.Second + 3*time.Millisecond):
				case <-base.Done():
					return
				}
				mu.Lock()
				cancelled[id] = true
				mu.Unlock()
				cancels[id]()
			}()
		}
	}
	results := make([]lres, n)
	t0 := time.Now()
	var wg sync.WaitGroup
	at := time.Duration(0)
	for i, entry := range c.Entries {
		at += time.Duration(c.Stagger[i%len(c.Stagger)]) * time.Millisecond
		wg.Add(1)
		go func(start time.Duration) {
			defer wg.Done()
			time.Sleep(start)
			r := lres{}
			func() {
				defer func() {
					if p := recover(); p != nil {
						r.panicked = true
					}
				}()
				switch entry {
				case "updater":
					r.builds = &atomic.Int32{}
					u, err := setec.NewUpdater(ctxs[i], st, "x", func(b []byte) (string, error) { r.builds.Add(1); return string(b), nil })
					if r.err = err; err == nil {
						r.val = u.Get()
						r.again = u.Get
					}
				case "apply":
					var tgt applyTarget
					f, err := setec.ParseFields(&tgt, "")
					if err != nil {
						r.err = err
						break
					}
					r.err = f.Apply(ctxs[i], st)
					r.val = string(tgt.X)
				default:
					hd, err := st.LookupSecret(ctxs[i], "x")
					if r.err = err; err == nil {
						r.val = string(hd.Get())
						r.again = func() string { return string(hd.Get()) }
					}
				}
			}()
			r.done, r.at = true, time.Since(t0)
			results[i] = r
		}(at)
	}
	done := make(chan struct{})
	go func() { wg.Wait(); close(done) }()
	select {
	case <-done:
	case <-time.After(30 * time.Minute):
		svc.Release()
		endRun()
		<-done
		return h.V("all-callers-return", "after 30 minutes not every caller had returned (winners so far: %v)", owners)
	}
	svc.OnCtx = nil
	mu.Lock()
	defer mu.Unlock()
	if len(cancelled) >= 2 {
		info.NonTrivial = true
	}
	info.Class(fmt.Sprintf("winners-that-gave-up-%d", len(cancelled)))
	reqs := svc.Log()[l0:]
	if svc.MaxInflight("x") > 1 {
		return h.V("single-flight", "%d requests for one name were in flight at once", svc.MaxInflight("x"))
	}
	survivors := 0
	for i := range results {
		r := results[i]
		if r.panicked {
			return h.V("never-a-panic", "caller %d (%s) panicked", i, c.Entries[i])
		}
		if cancelled[i] {
			continue // its own context ended: whatever it reports is its own business
		}
		survivors++
		if r.err != nil {
			return h.V("not-failed-by-anothers-cancellation", "caller %d (%s), whose context was never cancelled, failed: %v - after %d winner(s) %v had been cancelled one after the other and with the service ready to answer the next request; requests: %s", i, c.Entries[i], r.err, len(cancelled), owners, fmtReqs(reqs))
		}
		if c.Moving {
			ok := false
			for k := 0; k <= len(owners)-c.Hangs; k++ {
				ok = ok || r.val == movingVal(k)
			}
			if !ok {
				return h.V("working-handle", "caller %d got %q, which the service never served", i, r.val)
			}
		} else if r.val != xVal {
			return h.V("working-handle", "caller %d got %q, the service serves %q", i, r.val, xVal)
		}
	}
	if c.Moving && survivors > 0 {
		// C15: whatever the successive flights installed, every updater now yields a value built from the
		// newest installed bytes - the bytes a handle returns.
		newest := string(st.Secret("x").Get())
		answered := len(owners) - c.Hangs
		info.Class(fmt.Sprintf("answered-flights-%d", answered))
		info.NonTrivial = answered >= 2
		if answered == 1 {
			// one flight installed the secret once and nothing was installed afterwards: each updater
			// built its value when it was created and has had no reason to build another
			for i, r := range results {
				if !cancelled[i] && r.err == nil && r.builds != nil && r.builds.Load() != 1 {
					return h.V("rebuilt-only-after-an-install", "updater of caller %d was created by NewUpdater on a name the store had to look up; nothing has been installed since, yet after its first Get the builder has run %d times (want 1)", i, r.builds.Load())
				}
			}
		}
		for i, r := range results {
			if cancelled[i] || r.again == nil || r.err != nil || c.Entries[i] != "updater" {
				continue
			}
			if got := r.again(); got != newest {
				return h.V("built-from-newest-installed", "updater of caller %d was created from the flight that fetched %q; a later flight for the same name then installed %q (the store's handles return it, %d answered requests in all) but Updater.Get still yields %q", i, r.val, newest, answered, got)
			}
		}
		// ... and a poll that finds nothing newer does not change that
		if err := st.Refresh(context.Background()); err != nil {
			return h.V("harness", "Refresh: %v", err)
		}
		newest = string(st.Secret("x").Get())
		for i, r := range results {
			if cancelled[i] || r.again == nil || r.err != nil {
				continue
			}
			if got := r.again(); got != newest {
				return h.V("built-from-newest-installed", "after a poll that returned nil the store's handle yields %q but caller %d (%s) yields %q", newest, i, c.Entries[i], got)
			}
		}
	}
	if survivors > 0 {
		// Every handle and updater the callers ended up with - whichever of the successive flights it came
		// from - follows the next version the service activates.
		svc.Set("x", 400, []byte("8"))
		if err := st.Refresh(context.Background()); err != nil {
			return h.V("harness", "Refresh: %v", err)
		}
		for i, r := range results {
			if cancelled[i] || r.again == nil || r.err != nil {
				continue
			}
			if got := r.again(); got != "8" {
				clause := "polled-after-lookup"
				if prop == "C11" {
					clause = "fresh-after-successful-poll"
				}
				return h.V(clause, "caller %d (%s) obtained its handle after %d winner(s) had given up (%d requests were answered in all); after the service activated a new version and Refresh returned nil it still yields %q, want %q", i, c.Entries[i], len(cancelled), len(reqs)-len(cancelled), got, "8")
			}
		}
		if c.Moving {
			return nil
		}
		if len(reqs)-len(cancelled) >= 2 {
			info.Class("several-answered-flights-for-one-name")
		}
		if prop == "C11" {
			return nil
		}
	}
	if survivors > 0 {
		// one hung request per cancelled winner; then the waiting callers retry. They were all parked on
		// the flight that failed, so each may start a flight of its own once the previous (instantly
		// answered) one is over: between 1 and `survivors` answered requests, never two at once (above).
		if lo, hi := len(cancelled)+1, len(cancelled)+survivors; len(reqs) < lo || len(reqs) > hi {
			return h.V("no-automatic-retry", "%d winners gave up and %d callers were served: %d requests were sent, want %d..%d; %s", len(cancelled), survivors, len(reqs), lo, hi, fmtReqs(reqs))
		}
	}
	return nil
}

var c16winners = &h.Campaign[WinnersCase]{
	Prop: "C16", Sub: "winners",
	Rule:  "rapid + testing/synctest: 2-8 callers (LookupSecret / NewUpdater / Fields.Apply, contexts cancellable only by the harness) look up one unknown name, started 0-700 ms apart; the first K (1-5) requests reaching the service hang, the harness reads from each request's context WHOSE request it is and cancels exactly that caller 1-20 s later; afterwards the service answers; every caller never cancelled must return a working handle, never two requests in flight, and at most one answered request per surviving caller; non-trivial = at least two successive winners gave up while others waited; distinct by scenario",
	Quick: 1500, Thorough: 100000,
	Gen: func(rt *rapid.T) WinnersCase {
		return WinnersCase{
			Entries: rapid.SliceOfN(rapid.SampledFrom([]string{"lookup", "lookup", "updater", "apply"}), 2, 8).Draw(rt, "entries"),
			Hangs:   rapid.IntRange(1, 5).Draw(rt, "hangs"),
			AfterS:  rapid.SampledFrom([]int{1, 2, 20}).Draw(rt, "after"),
			Stagger: rapid.SliceOfN(rapid.SampledFrom([]int{0, 1, 50, 700}), 1, 3).Draw(rt, "stagger"),
		}
	},
	Run: runC16Winners,
}

// ---- C16: several different names looked up at once over a slow cache ---------------------------
//
// "... and the secret is thereafter polled and cached like any other": lookups of DIFFERENT unknown
// names overlap while the cache device is slow.  When everything has settled the cache document
// must list every secret that was looked up successfully, and a store restarted from that cache
// during an outage of the service must know them all.  Real time (the store's lock is involved,
// which a synctest bubble cannot wait on), so the slow device is a gate the harness opens.

type LookupCacheCase struct {
	Names    []string `json:"names"`     // looked up concurrently, in this start order (may repeat)
	SlowCall int      `json:"slow_call"` // this cache Write call (1-based, counted after construction) is held ...
	HoldMs   int      `json:"hold_ms"`   // ... for this long (real time)
	GapUs    int      `json:"gap_us"`    // pause between starting the lookups
	// Refresh: while the lookups are under way the declared secret gets a new active version and the
	// program calls Refresh - a poll's cache write and the lookups' cache writes must not overtake
	// one another: the last document holds the polled version AND every looked-up secret
	Refresh bool `json:"refresh,omitempty"`
	// RefreshFirst (with Refresh): the Refresh is started BEFORE the lookups, so that (with SlowCall 1)
	// it is the poll's cache write that the slow device holds while the lookups come in
	RefreshFirst bool `json:"refresh_first,omitempty"`
}

// lcVal is what the service serves for an undeclared name: "w" is a secret whose value is empty (the
// server stores such values, a store that declares the name serves them; a lookup is no different)
func lcVal(n string) string {
	if n == "w" {
		return ""
	}
	return "val-" + n
}

func runC16LookupCache(t *testing.T, c LookupCacheCase) (*h.Violation, h.Info) {
	var info h.Info
	svc := fake.NewSvc()
	svc.Set("d", 1, []byte("dv"))
	for i, n := range []string{"x", "y", "z", "w"} {
		svc.Set(n, uint32(3+i), []byte(lcVal(n)))
	}
	cache := fake.NewCache(nil)
	st, err := setec.NewStore(context.Background(), setec.StoreConfig{Client: svc, Secrets: []string{"d"}, AllowLookup: true, Cache: cache, PollInterval: -1, Logf: nolog})
	if err != nil {
		return h.V("harness", "NewStore: %v", err), info
	}
	base := cache.NumWriteCalls()
	held := make(chan struct{}, 1)
	cache.OnWrite = func(n int) {
		if n-base == c.SlowCall {
			held <- struct{}{}
			time.Sleep(time.Duration(c.HoldMs) * time.Millisecond)
		}
	}
	var refreshDone chan error
	if c.Refresh && c.RefreshFirst {
		svc.Set("d", 2, []byte("dv-2"))
		refreshDone = make(chan error, 1)
		go func() { refreshDone <- st.Refresh(context.Background()) }()
		if c.SlowCall == 1 {
			select { // let the poll reach the slow device before the lookups start
			case <-held:
				info.Class("lookups-start-while-the-poll's-cache-write-is-held")
			case <-time.After(200 * time.Millisecond):
			}
		}
	}
	var wg sync.WaitGroup
	errs := make([]error, len(c.Names))
	for i, n := range c.Names {
		wg.Add(1)
		go func() {
			defer wg.Done()
			hd, err := st.LookupSecret(context.Background(), n)
			if err == nil && string(hd.Get()) != lcVal(n) {
				err = fmt.Errorf("handle yields %q", hd.Get())
			}
			errs[i] = err
		}()
		if i == 0 && c.SlowCall == 1 && refreshDone == nil {
			select { // let the first lookup reach the slow device before the others start
			case <-held:
				info.Class("others-start-while-a-cache-write-is-held")
			case <-time.After(200 * time.Millisecond):
			}
		} else {
			time.Sleep(time.Duration(c.GapUs) * time.Microsecond)
		}
	}
	dWant := "dv"
	if refreshDone != nil {
		if err := <-refreshDone; err == nil {
			dWant = "dv-2"
			info.Class("a-refresh-installs-while-lookups-write-the-cache")
		} else {
			dWant = ""
		}
	} else if c.Refresh {
		svc.Set("d", 2, []byte("dv-2"))
		if err := st.Refresh(context.Background()); err == nil {
			dWant = "dv-2"
			info.Class("a-refresh-installs-while-lookups-write-the-cache")
		} else {
			dWant = ""
		}
	}
	wg.Wait()
	cache.OnWrite = nil
	distinct := map[string]bool{}
	for i, n := range c.Names {
		if errs[i] != nil {
			st.Close()
			return h.V("working-handle", "the service is healthy and serves %q (%d bytes), yet its lookup failed: %v", n, len(lcVal(n)), errs[i]), info
		}
		distinct[n] = true
	}
	if len(distinct) >= 2 {
		info.NonTrivial = true
	}
	var want []string
	for n := range distinct {
		want = append(want, n)
	}
	sort.Strings(want)
	doc, err := model.DecodeCacheStrict(cache.Data())
	if err != nil {
		st.Close()
		return h.V("cached-after-lookup", "cache document: %v", err), info
	}
	for _, n := range append([]string{"d"}, want...) {
		wantVal := lcVal(n)
		if n == "d" {
			if dWant == "" {
				continue // (the Refresh reported an error: which version the store holds is open)
			}
			wantVal = dWant
		}
		if e, ok := doc[n]; !ok || string(e.Value) != wantVal {
			st.Close()
			if n == "d" {
				return h.V("cached-after-lookup", "a Refresh that installed a new version of the declared secret returned nil while lookups of %v were writing the cache; the document that was written last holds %q for it, the store serves %q: %s", want, e.Value, wantVal, cache.Data()), info
			}
			return h.V("cached-after-lookup", "every lookup of %v returned a working handle, but the cache document that was written last lacks %q (or holds other bytes): %s", want, n, cache.Data()), info
		}
	}
	st.Close()
	// outage + restart from that cache
	svc2 := fake.NewSvc()
	bctx, bcancel := context.WithTimeout(context.Background(), 1500*time.Millisecond)
	defer bcancel()
	st2, err := setec.NewStore(bctx, setec.StoreConfig{Client: svc2, Secrets: []string{"d"}, AllowLookup: true, Cache: fake.NewCache(cache.Data()), PollInterval: -1, Logf: nolog})
	if err != nil {
		return h.V("cached-after-lookup", "a store restarted from the cache while the service is away: %v", err), info
	}
	defer st2.Close()
	for _, n := range want {
		if hd := st2.Secret(n); hd == nil || string(hd.Get()) != lcVal(n) {
			return h.V("cached-after-lookup", "after a restart from the cache, %q (looked up successfully before) is not known", n), info
		}
	}
	return nil, info
}

var c16lookupCache = &h.Campaign[LookupCacheCase]{
	Prop: "C16", Sub: "lookup-cache",
	Rule:  "rapid, real time: 2-6 concurrent LookupSecret calls over 1-4 different unknown names on a store whose cache device holds one generated Write call for 1-8 ms (the later lookups start once that write is being held, or after generated pauses); afterwards the last cache document must list every looked-up secret with its bytes, and a store restarted from it with the service away must know them all; one of the four names has an empty value; non-trivial = at least two different names; distinct by (scenario, run) because the interleaving is sampled",
	Quick: 400, Thorough: 20000,
	Gen: func(rt *rapid.T) LookupCacheCase {
		return LookupCacheCase{
			Names:        rapid.SliceOfN(rapid.SampledFrom([]string{"x", "y", "z", "w"}), 2, 6).Draw(rt, "names"),
			SlowCall:     rapid.SampledFrom([]int{1, 1, 1, 2, 3}).Draw(rt, "slow"),
			HoldMs:       rapid.SampledFrom([]int{1, 3, 8}).Draw(rt, "hold"),
			GapUs:        rapid.SampledFrom([]int{0, 50, 500}).Draw(rt, "gap"),
			Refresh:      rapid.Bool().Draw(rt, "refresh"),
			RefreshFirst: rapid.Bool().Draw(rt, "refreshfirst"),
		}
	},
	Run: runC16LookupCache,
	Key: func(c LookupCacheCase) any { return fmt.Sprintf("%v/%d", c, nonce.Add(1)) },
}

// C11 (handles obtained through repeated lookups): "when Refresh completes without error, every secret
// the store knows yields the version that was active during that poll" - also through handles that
// were handed out by DIFFERENT lookup flights for the same name (waiting callers each start a flight of
// their own after a winner gave up). The same scenarios as the C16 winners; only freshness is judged.
var c11lookups = &h.Campaign[WinnersCase]{
	Prop: "C11", Sub: "handles-from-repeated-lookups",
	Rule:  "rapid + testing/synctest: the C16 'winners' scenarios (2-8 callers look one unknown name up, the first 1-5 requests hang and their owners are cancelled, the rest is answered by one or several successive flights); then the service activates a new version, Refresh returns nil, and every handle / updater any caller obtained must yield the new bytes; non-trivial = at least two answered flights for the name; distinct by scenario",
	Quick: 800, Thorough: 60000,
	Gen: func(rt *rapid.T) WinnersCase { return c16winners.Gen(rt) },
	Run: func(t *testing.T, c WinnersCase) (v *h.Violation, info h.Info) {
		synctest.Test(t, func(t *testing.T) { v = runC16WinnersBubble(c, &info, "C11") })
		nt := false
		for _, cl := range info.Classes {
			if cl == "several-answered-flights-for-one-name" {
				nt = true
			}
		}
		info.NonTrivial = nt
		if v != nil && v.Clause != "fresh-after-successful-poll" {
			v = nil // everything else is C16's to report
		}
		return
	},
}

// ---- C15: an updater created from one of several successive lookups of its name ---------------
//
// "updaters created while updates are in flight": the same scenarios, but the service activates a
// further version at every request it answers, and most callers create updaters.  When several
// flights for the one name are answered one after the other, each installs what it fetched; an
// updater created from an earlier flight must still end up built from the newest installed bytes.
var c15lookups = &h.Campaign[WinnersCase]{
	Prop: "C15", Sub: "updaters-from-successive-lookups",
	Rule:  "rapid + testing/synctest: 3-8 callers (mostly NewUpdater, some LookupSecret) ask for one unknown name at once; the first 1-3 requests hang and their owners are cancelled, so the remaining callers are all released at the same moment and their retries form one or several successive flights; the service activates a further version at every request it answers; when all have returned, every updater must yield a value built from the bytes the store's handle returns (the newest installed), also after a poll that finds nothing newer, and after the next activation + Refresh; non-trivial = at least two answered flights for the name; distinct by scenario",
	Quick: 1500, Thorough: 150000,
	Gen: func(rt *rapid.T) WinnersCase {
		return WinnersCase{
			Entries: rapid.SliceOfN(rapid.SampledFrom([]string{"updater", "updater", "updater", "lookup"}), 3, 8).Draw(rt, "entries"),
			Hangs:   rapid.IntRange(1, 3).Draw(rt, "hangs"),
			AfterS:  rapid.SampledFrom([]int{1, 2}).Draw(rt, "after"),
			Stagger: rapid.SliceOfN(rapid.SampledFrom([]int{0, 0, 1}), 1, 3).Draw(rt, "stagger"),
			Moving:  true,
		}
	},
	Run: func(t *testing.T, c WinnersCase) (v *h.Violation, info h.Info) {
		synctest.Test(t, func(t *testing.T) { v = runC16WinnersBubble(c, &info, "C15") })
		if v != nil && v.Clause != "built-from-newest-installed" && v.Clause != "rebuilt-only-after-an-install" && v.Clause != "polled-after-lookup" && v.Clause != "harness" {
			v = nil // C16's to report
		}
		return
	},
}

// ---- C16: a failed lookup leaves nothing behind ----------------------------------------------------
//
// "A failed lookup installs nothing and is reported to its caller without automatic retry" - and
// "with lookups enabled an unknown name is fetched": the first lookup of a name fails (the service
// reports an error, does not have the secret, refuses, times out, or its reply is cut short on the
// way), then - immediately or some time later - the name is asked for again while the service is
// healthy and has the secret.  The second caller must be served by a fresh request.

type RetryCase struct {
	FailKind string `json:"fail_kind"` // err | notfound | denied | reqtimeout | nettimeout | cut
	CutAt    int    `json:"cut_at"`    // cut: the 200 reply carries only this many bytes of the JSON value (mod its length)
	GapMs    int    `json:"gap_ms"`
	Entry1   string `json:"entry1"` // lookup | updater | apply
	Entry2   string `json:"entry2"`
	Wire     bool   `json:"wire"` // through the real setec.Client
}

func runC16Retry(t *testing.T, c RetryCase) (v *h.Violation, info h.Info) {
	synctest.Test(t, func(t *testing.T) {
		svc := fake.NewSvc()
		svc.Set("d", 1, []byte("dv"))
		svc.Set("x", 3, []byte(xVal))
		var client setec.StoreClient = svc
		transportAttempts, armed := 0, false
		if c.FailKind == "cut" {
			full, _ := json.Marshal(&api.SecretValue{Version: 3, Value: []byte(xVal)})
			cut := full[:c.CutAt%len(full)]
			first := true
			client = svc.WireRaw(func(n int, name string) (int, []byte, bool) {
				if name == "x" && first {
					first = false
					return 200, cut, true
				}
				return 0, nil, false
			})
			info.Class(fmt.Sprintf("reply-cut-after-%d-of-%d-bytes", len(cut), len(full)))
		} else if strings.HasPrefix(c.FailKind, "conn-") {
			// the connection is lost before any reply arrives (the peer closed it, it was reset): the
			// transport reports that to the client - once - while every context is alive
			inner := svc.Wire()
			first := true
			client = setec.Client{Server: inner.Server, DoHTTP: func(r *http.Request) (*http.Response, error) {
				if !armed {
					return inner.DoHTTP(r) // (construction fetches the declared secret first)
				}
				transportAttempts++
				if first {
					first = false
					return nil, map[string]error{"conn-eof": io.EOF, "conn-unexpected-eof": io.ErrUnexpectedEOF, "conn-reset": &net.OpError{Op: "read", Net: "tcp", Err: syscall.ECONNRESET}}[c.FailKind]
				}
				return inner.DoHTTP(r)
			}}
			info.Class("connection-lost-before-the-reply")
		} else {
			svc.SetScript("x", []fake.Beh{{Kind: c.FailKind}})
			if c.Wire {
				client = svc.Wire()
				info.Class("through-the-real-client")
			}
		}
		st, err := setec.NewStore(context.Background(), setec.StoreConfig{Client: client, Secrets: []string{"d"}, AllowLookup: true, PollInterval: -1, Logf: nolog})
		if err != nil {
			v = h.V("harness", "NewStore: %v", err)
			return
		}
		defer st.Close()
		armed = true
		ask := func(entry string) (val string, err error, pan any) {
			defer func() { pan = recover() }()
			switch entry {
			case "updater":
				u, e := setec.NewUpdater(context.Background(), st, "x", func(b []byte) (string, error) { return string(b), nil })
				if e != nil {
					return "", e, nil
				}
				return u.Get(), nil, nil
			case "apply":
				var tgt applyTarget
				f, e := setec.ParseFields(&tgt, "")
				if e != nil {
					return "", e, nil
				}
				e = f.Apply(context.Background(), st)
				return string(tgt.X), e, nil
			}
			hd, e := st.LookupSecret(context.Background(), "x")
			if e != nil {
				return "", e, nil
			}
			if hd == nil {
				return "", nil, "LookupSecret returned a nil handle and a nil error"
			}
			return string(hd.Get()), nil, nil
		}
		l0 := svc.LogLen()
		if strings.HasPrefix(c.FailKind, "conn-") {
			l0-- // (the lost request never reached the service's log: count it through the transport)
		}
		val, err, pan := ask(c.Entry1)
		if pan != nil {
			v = h.V("never-a-panic", "the first lookup (via %s, service failure %q) panicked: %v", c.Entry1, c.FailKind, pan)
			return
		}
		if err == nil {
			v = h.V("failed-lookup-reported", "the first request for the name failed (%s) yet the caller (via %s) was given %q and no error", c.FailKind, c.Entry1, val)
			return
		}
		if n := svc.LogLen() - l0; n != 1 || transportAttempts > 1 {
			v = h.V("no-automatic-retry", "a lone caller whose request failed (%s) caused %d requests (%d round trips on the transport)", c.FailKind, n, transportAttempts)
			return
		}
		if hd := st.Secret("x"); hd != nil {
			v = h.V("failed-lookup-installs-nothing", "after the only lookup failed (%s: %v) the store knows the secret", c.FailKind, err)
			return
		}
		time.Sleep(time.Duration(c.GapMs) * time.Millisecond)
		l1 := svc.LogLen()
		val, err, pan = ask(c.Entry2)
		if pan != nil {
			v = h.V("never-a-panic", "the lookup after a failed one panicked: %v", pan)
			return
		}
		if err != nil || val != xVal {
			v = h.V("unknown-name-is-fetched", "the first lookup failed (%s); %d ms later the service is healthy and has the secret, but a new lookup (via %s) yields %q, %v (requests sent for it: %d)", c.FailKind, c.GapMs, c.Entry2, val, err, svc.LogLen()-l1)
			return
		}
		if n := svc.LogLen() - l1; n < 1 {
			v = h.V("unknown-name-is-fetched", "the lookup after a failed one was answered without any request to the service (%d sent)", n)
			return
		}
		if hd := st.Secret("x"); hd == nil || string(hd.Get()) != xVal {
			v = h.V("working-handle", "after the successful lookup Secret(name) is nil or yields something else")
			return
		}
		info.NonTrivial = true
		info.Class("second-lookup-after-" + c.FailKind)
	})
	return
}

var c16retry = &h.Campaign[RetryCase]{
	Prop: "C16", Sub: "lookup-after-failure",
	Rule:  "rapid + testing/synctest: the first lookup of an unknown name (LookupSecret / NewUpdater / Fields.Apply) fails - the service errs, lacks the secret, refuses, the request times out, or (through the real setec.Client) the 200 reply is cut short at a generated byte - and must be reported, cause exactly one request and install nothing; 0 ms - 10 min later (virtual) the service is healthy and has the secret: a new lookup must be served by a fresh request and yield a working handle; non-trivial = every completed case; distinct by scenario",
	Quick: 600, Thorough: 60000,
	Gen: func(rt *rapid.T) RetryCase {
		return RetryCase{
			FailKind: rapid.SampledFrom([]string{"err", "notfound", "notfound", "denied", "reqtimeout", "nettimeout", "cut", "cut", "conn-eof", "conn-unexpected-eof", "conn-reset"}).Draw(rt, "failkind"),
			CutAt:    rapid.IntRange(0, 60).Draw(rt, "cutat"),
			GapMs:    rapid.SampledFrom([]int{0, 1, 1000, 30000, 59000, 61000, 600000}).Draw(rt, "gap"),
			Entry1:   rapid.SampledFrom([]string{"lookup", "lookup", "updater", "apply"}).Draw(rt, "entry1"),
			Entry2:   rapid.SampledFrom([]string{"lookup", "lookup", "updater", "apply"}).Draw(rt, "entry2"),
			Wire:     rapid.Bool().Draw(rt, "wire"),
		}
	},
	Run: runC16Retry,
}

func TestC16LookupAfterFailure(t *testing.T) { c16retry.Check(t) }

func init() {
	c16retry.Register()
	c16winners.Register()
	c16lookupCache.Register()
	c11lookups.Register()
	c15lookups.Register()
}

func TestC15UpdatersFromSuccessiveLookups(t *testing.T) { c15lookups.Check(t) }

func TestC11HandlesFromRepeatedLookups(t *testing.T) { c11lookups.Check(t) }

func TestC16Winners(t *testing.T)     { c16winners.Check(t) }
func TestC16LookupCache(t *testing.T) { c16lookupCache.Check(t) }

// ---- C16: what a lookup shares, and with whom -------------------------------------------------------
//
// "concurrent lookups of the same name share one in-flight request" - of the same STORE, and with
// other lookups only.  Two stores in one process (two services, two caches) have nothing to share;
// and a secret may be called anything - "poll" included - without its lookup getting mixed up with
// the store's other business (a Refresh that happens to be in flight).

var neighbourWaitMs = func() *atomic.Int64 { v := &atomic.Int64{}; v.Store(30000); return v }()

type NeighbourCase struct {
	Kind  string `json:"kind"`  // two-stores | lookup-during-refresh | refresh-during-lookup
	Name  string `json:"name"`  // the undeclared name that is looked up
	Entry string `json:"entry"` // lookup | updater
}

func runC16Neighbours(t *testing.T, c NeighbourCase) (*h.Violation, h.Info) {
	var info h.Info
	mkStore := func(tag string) (*fake.Svc, *setec.Store, error) {
		svc := fake.NewSvc()
		svc.Set("d", 1, []byte("dv-"+tag))
		svc.Set(c.Name, 3, []byte("value-from-"+tag))
		st, err := setec.NewStore(context.Background(), setec.StoreConfig{Client: svc, Secrets: []string{"d"}, AllowLookup: true, PollInterval: -1, Logf: nolog})
		return svc, st, err
	}
	ask := func(st *setec.Store) (string, error) {
		if c.Entry == "updater" {
			u, err := setec.NewUpdater(context.Background(), st, c.Name, func(b []byte) (string, error) { return string(b), nil })
			if err != nil {
				return "", err
			}
			return u.Get(), nil
		}
		hd, err := st.LookupSecret(context.Background(), c.Name)
		if err != nil {
			return "", err
		}
		return string(hd.Get()), nil
	}
	type res struct {
		val string
		err error
		pan any
	}
	async := func(f func() (string, error)) chan res {
		ch := make(chan res, 1)
		go func() {
			var r res
			defer func() {
				if p := recover(); p != nil {
					r.pan = p
				}
				ch <- r
			}()
			r.val, r.err = f()
		}()
		return ch
	}
	// wait: the call must come back - within 30 s of real time once nothing holds it any more (a call
	// that never returns is stuck for good, not slow)
	wait := func(ch chan res, what string) (res, *h.Violation) {
		select {
		case r := <-ch:
			if r.pan != nil {
				return r, h.V("never-a-panic", "%s panicked: %v", what, r.pan)
			}
			return r, nil
		case <-time.After(time.Duration(neighbourWaitMs.Load()) * time.Millisecond):
			// (once a call has been seen to hang, the re-runs rapid makes while it shrinks the scenario
			// need not wait as long again)
			neighbourWaitMs.Store(400)
			return res{}, h.V("working-handle", "%s had not returned 30 s (real time) after every request of every service had been answered", what)
		}
	}
	// soon: has the call returned within a short while? Waiting for a neighbour is not forbidden - what a
	// call returns in the end is what counts - so "not yet" is an observation, not a verdict.
	soon := func(ch chan res) (res, bool) {
		select {
		case r := <-ch:
			return r, true
		case <-time.After(300 * time.Millisecond):
			return res{}, false
		}
	}
	// waitOpening waits for a call that is parked at svc's gate: the gate is opened again and again
	// until the call returns (a request counts as in flight a moment before it reaches the gate; an
	// OpenGate that falls into that moment opens nothing)
	waitOpening := func(svc *fake.Svc, ch chan res, what string) (res, *h.Violation) {
		stop := make(chan struct{})
		defer close(stop)
		go func() {
			for {
				svc.OpenGate()
				select {
				case <-stop:
					return
				case <-time.After(5 * time.Millisecond):
				}
			}
		}()
		return wait(ch, what)
	}
	svcA, stA, err := mkStore("A")
	if err != nil {
		return h.V("harness", "NewStore: %v", err), info
	}
	defer stA.Close()
	defer svcA.Release()
	switch c.Kind {
	case "two-stores":
		svcB, stB, err := mkStore("B")
		if err != nil {
			return h.V("harness", "NewStore: %v", err), info
		}
		defer stB.Close()
		svcA.SetScript(c.Name, []fake.Beh{{Kind: "gate"}})
		chA := async(func() (string, error) { return ask(stA) })
		if !waitInFlight(svcA, c.Name) {
			return h.V("harness", "store A's lookup did not reach its service"), info
		}
		chB := async(func() (string, error) { return ask(stB) })
		rB, early := soon(chB)
		if !early {
			info.Class("store-B-waited-for-store-A's-lookup")
		}
		rA, v := waitOpening(svcA, chA, "the lookup on store A")
		if v != nil {
			return v, info
		}
		if !early {
			if rB, v = wait(chB, "the lookup on store B"); v != nil {
				return v, info
			}
		}
		if rB.pan != nil {
			return h.V("never-a-panic", "the lookup on store B panicked: %v", rB.pan), info
		}
		if rB.err != nil || rB.val != "value-from-B" {
			return h.V("working-handle", "two stores in one process, each with its own service; store B looked %q up while store A's lookup of the same name was pending and got %q, %v - its service serves %q", c.Name, rB.val, rB.err, "value-from-B"), info
		}
		if svcB.CountFor(c.Name) != 1 || stB.Secret(c.Name) == nil {
			return h.V("unknown-name-is-fetched", "store B's service saw %d requests for %q and store B knows the secret = %v after its lookup succeeded", svcB.CountFor(c.Name), c.Name, stB.Secret(c.Name) != nil), info
		}
		if rA.err != nil || rA.val != "value-from-A" {
			return h.V("working-handle", "store A's lookup returned %q, %v", rA.val, rA.err), info
		}
		info.Class("two-stores-look-the-same-name-up")
	case "lookup-during-refresh":
		svcA.SetScript("d", []fake.Beh{{Kind: "gate"}})
		chR := async(func() (string, error) { return "", stA.Refresh(context.Background()) })
		if !waitInFlight(svcA, "d") {
			return h.V("harness", "the poll did not reach the service"), info
		}
		chL := async(func() (string, error) { return ask(stA) })
		r, early := soon(chL)
		if !early {
			info.Class("the-lookup-waited-for-the-refresh")
		}
		rr, v := waitOpening(svcA, chR, "the Refresh")
		if v != nil {
			return v, info
		}
		if !early {
			if r, v = wait(chL, fmt.Sprintf("the lookup of %q", c.Name)); v != nil {
				return v, info
			}
		}
		if r.pan != nil {
			return h.V("never-a-panic", "the lookup of %q while a Refresh was in flight panicked: %v", c.Name, r.pan), info
		}
		if r.err != nil || r.val != "value-from-A" || svcA.CountFor(c.Name) < 1 {
			return h.V("unknown-name-is-fetched", "a lookup of the secret named %q while a Refresh was in flight returned %q, %v after %d requests for it", c.Name, r.val, r.err, svcA.CountFor(c.Name)), info
		}
		if rr.err != nil {
			return h.V("harness", "Refresh: %v", rr.err), info
		}
		info.Class("lookup-while-a-refresh-is-in-flight")
	case "refresh-during-lookup":
		svcA.SetScript(c.Name, []fake.Beh{{Kind: "gate"}})
		chL := async(func() (string, error) { return ask(stA) })
		if !waitInFlight(svcA, c.Name) {
			return h.V("harness", "the lookup did not reach the service"), info
		}
		svcA.Set("d", 2, []byte("dv-A-2"))
		chRf := async(func() (string, error) { return "", stA.Refresh(context.Background()) })
		rr, early := soon(chRf)
		if !early {
			info.Class("the-refresh-waited-for-the-lookup")
		}
		r, v := waitOpening(svcA, chL, "the lookup")
		if v != nil {
			return v, info
		}
		if !early {
			if rr, v = wait(chRf, fmt.Sprintf("a Refresh issued while the lookup of %q was pending", c.Name)); v != nil {
				return v, info
			}
		}
		if rr.pan != nil {
			return h.V("never-a-panic", "a Refresh issued while the lookup of %q was pending panicked: %v", c.Name, rr.pan), info
		}
		if rr.err == nil {
			if got := string(stA.Secret("d").Get()); got != "dv-A-2" {
				return h.V("polled-after-lookup", "a Refresh issued while the lookup of a secret named %q was pending returned nil without having polled: the declared secret still yields %q, the service's active version holds %q", c.Name, got, "dv-A-2"), info
			}
		}
		if r.err != nil || r.val != "value-from-A" {
			return h.V("working-handle", "the lookup of %q returned %q, %v", c.Name, r.val, r.err), info
		}
		info.Class("refresh-while-a-lookup-is-pending")
	}
	info.NonTrivial = true
	return nil, info
}

var c16neighbours = &h.Campaign[NeighbourCase]{
	Prop: "C16", Sub: "neighbours",
	Rule:  "rapid (real time, gates): (1) two stores in one process, each over its own service; store A's lookup of a name is held at A's service while store B looks the same name up: B is served by its own service at once, knows the secret afterwards, and A gets A's value; (2) a Refresh is held at the service while an undeclared secret is looked up - its name drawn from {x, poll, lookup:x, refresh} - and (3) the other way round: each gets its own answer, a Refresh that returns nil has polled; non-trivial = every completed case; distinct by scenario",
	Quick: 60, Thorough: 3000, ShrinkTime: "1ms",
	Gen: func(rt *rapid.T) NeighbourCase {
		return NeighbourCase{Kind: rapid.SampledFrom([]string{"two-stores", "lookup-during-refresh", "refresh-during-lookup"}).Draw(rt, "kind"),
			Name: rapid.SampledFrom([]string{"x", "poll", "poll", "lookup:x", "refresh"}).Draw(rt, "name"), Entry: rapid.SampledFrom([]string{"lookup", "updater"}).Draw(rt, "entry")}
	},
	Run: runC16Neighbours,
}

// The third kind is as much a statement about polls as about lookups ("when Refresh completes without
// error every secret the store knows yields the service's active version"), so C11 runs it as well.
var c11neighbours = &h.Campaign[NeighbourCase]{
	Prop: "C11", Sub: "refresh-while-a-lookup-is-pending",
	Rule:  "rapid (real time, gates): the first lookup of an undeclared secret - its name drawn from {x, poll, lookup:x, refresh, d} - is held at the service while the declared secret gets a new active version and Refresh is called: a Refresh that returns nil has polled (the declared secret yields the new version), and it does not wait for the lookup; non-trivial = every completed case; distinct by scenario",
	Quick: 40, Thorough: 2000, ShrinkTime: "1ms",
	Gen: func(rt *rapid.T) NeighbourCase {
		return NeighbourCase{Kind: "refresh-during-lookup",
			Name: rapid.SampledFrom([]string{"x", "poll", "poll", "lookup:x", "refresh", "lookup:poll"}).Draw(rt, "name"), Entry: rapid.SampledFrom([]string{"lookup", "updater"}).Draw(rt, "entry")}
	},
	Run: func(t *testing.T, c NeighbourCase) (*h.Violation, h.Info) {
		v, info := runC16Neighbours(t, c)
		if v != nil && v.Clause == "polled-after-lookup" {
			v.Clause, v.Sig = "successful-poll-brings-every-secret-to-active", "successful-poll-brings-every-secret-to-active"
		}
		return v, info
	},
}

func TestC11RefreshWhileLookupPending(t *testing.T) { c11neighbours.Check(t) }

// "... and the cache holds the same": a Refresh that installs a new version while lookups of other
// names are writing the cache (one write held by a slow device) - the same scenarios as C16's
// lookup-cache sub-campaign with the Refresh always present; judged here for what the poll promises.
var c11lookupCache = &h.Campaign[LookupCacheCase]{
	Prop: "C11", Sub: "refresh-while-lookups-write-a-slow-cache",
	Rule:  "rapid, real time: 2-6 concurrent LookupSecret calls over 1-4 unknown names on a store whose cache device holds one generated Write call for 1-8 ms; meanwhile the declared secret gets a new active version and Refresh is called; when everything has settled the document written last holds the polled version (if Refresh returned nil) and every looked-up secret: neither kind of cache write may overtake the other; non-trivial = at least two different names; distinct by (scenario, run)",
	Quick: 300, Thorough: 15000,
	Gen: func(rt *rapid.T) LookupCacheCase {
		c := c16lookupCache.Gen(rt)
		c.Refresh = true
		return c
	},
	Run: func(t *testing.T, c LookupCacheCase) (*h.Violation, h.Info) {
		v, info := runC16LookupCache(t, c)
		if v != nil && v.Clause == "cached-after-lookup" {
			v.Clause, v.Sig = "cache-holds-the-same-after-a-successful-poll", "cache-holds-the-same-after-a-successful-poll"
		}
		return v, info
	},
	Key: func(c LookupCacheCase) any { return fmt.Sprintf("%v/%d", c, nonce.Add(1)) },
}

func TestC11RefreshWhileLookupsWriteCache(t *testing.T) { c11lookupCache.Check(t) }

func init() { c16neighbours.Register(); c11neighbours.Register(); c11lookupCache.Register() }

func TestC16Neighbours(t *testing.T) { c16neighbours.Check(t) }
