package clip

import (
	"context"
	"fmt"
	"sort"
	"sync"
	"testing"
	"testing/synctest"
	"time"

	"github.com/tailscale/setec/client/setec"
	"pgregory.net/rapid"
	"verifharness/fake"
	"verifharness/h"
	"verifharness/model"
)

// ---- C16: a waiting caller sits through SEVERAL successive winners that give up ---------------
//
// All callers look up the same unknown name.  The first K requests that reach the service
// hang; the harness learns from the request's context WHICH caller's request it is (the
// winner of the current flight) and cancels exactly that caller a little later.  After K
// such winners the service answers.  Every caller the harness never cancelled must obtain
// a working handle, however many winners came and went while it was waiting.

type callerKey struct{}

type WinnersCase struct {
	Entries []string `json:"entries"` // per caller: lookup | updater | apply
	Hangs   int      `json:"hangs"`   // the first Hangs requests hang until their owner is cancelled
	AfterS  int      `json:"after_s"` // the owner is cancelled this many seconds after its request arrived
	Stagger []int    `json:"stagger"` // caller i starts Stagger[i%len] ms after the previous one
}

func runC16Winners(t *testing.T, c WinnersCase) (v *h.Violation, info h.Info) {
	synctest.Test(t, func(t *testing.T) { v = runC16WinnersBubble(c, &info, "C16") })
	return
}

func runC16WinnersBubble(c WinnersCase, info *h.Info, prop string) *h.Violation {
	svc := fake.NewSvc()
	svc.Set("d", 1, []byte("dv"))
	svc.Set("x", 3, []byte(xVal))
	st, err := setec.NewStore(context.Background(), setec.StoreConfig{Client: svc, Secrets: []string{"d"}, AllowLookup: true, PollInterval: -1, Logf: nolog})
	if err != nil {
		return h.V("harness", "NewStore: %v", err)
	}
	defer st.Close()
	n := len(c.Entries)
	base, endRun := context.WithCancel(context.Background())
	defer endRun()
	cancels := make([]context.CancelFunc, n)
	ctxs := make([]context.Context, n)
	for i := range ctxs {
		ctxs[i], cancels[i] = context.WithCancel(context.WithValue(base, callerKey{}, i))
		defer cancels[i]()
	}
	var mu sync.Mutex
	cancelled := map[int]bool{}
	var owners []int
	hangs := make([]fake.Beh, c.Hangs)
	for i := range hangs {
		hangs[i] = fake.Beh{Kind: "hang"}
	}
	svc.SetScript("x", hangs)
	l0 := svc.LogLen()
	svc.OnCtx = func(ctx context.Context, k int, name string) {
		if name != "x" {
			return
		}
		id, ok := ctx.Value(callerKey{}).(int)
		if !ok {
			return
		}
		mu.Lock()
		nth := len(owners)
		owners = append(owners, id)
		mu.Unlock()
		if nth < c.Hangs {
			go func() {
				select {
				case <-time.After(time.Duration(c.AfterS)*time.Second + 3*time.Millisecond):
				case <-base.Done():
					return
				}
				mu.Lock()
				cancelled[id] = true
				mu.Unlock()
				cancels[id]()
			}()
		}
	}
	results := make([]lres, n)
	t0 := time.Now()
	var wg sync.WaitGroup
	at := time.Duration(0)
	for i, entry := range c.Entries {
		at += time.Duration(c.Stagger[i%len(c.Stagger)]) * time.Millisecond
		wg.Add(1)
		go func(start time.Duration) {
			defer wg.Done()
			time.Sleep(start)
			r := lres{}
			func() {
				defer func() {
					if p := recover(); p != nil {
						r.panicked = true
					}
				}()
				switch entry {
				case "updater":
					u, err := setec.NewUpdater(ctxs[i], st, "x", func(b []byte) (string, error) { return string(b), nil })
					if r.err = err; err == nil {
						r.val = u.Get()
						r.again = u.Get
					}
				case "apply":
					var tgt applyTarget
					f, err := setec.ParseFields(&tgt, "")
					if err != nil {
						r.err = err
						break
					}
					r.err = f.Apply(ctxs[i], st)
					r.val = string(tgt.X)
				default:
					hd, err := st.LookupSecret(ctxs[i], "x")
					if r.err = err; err == nil {
						r.val = string(hd.Get())
						r.again = func() string { return string(hd.Get()) }
					}
				}
			}()
			r.done, r.at = true, time.Since(t0)
			results[i] = r
		}(at)
	}
	done := make(chan struct{})
	go func() { wg.Wait(); close(done) }()
	select {
	case <-done:
	case <-time.After(30 * time.Minute):
		svc.Release()
		endRun()
		<-done
		return h.V("all-callers-return", "after 30 minutes not every caller had returned (winners so far: %v)", owners)
	}
	svc.OnCtx = nil
	mu.Lock()
	defer mu.Unlock()
	if len(cancelled) >= 2 {
		info.NonTrivial = true
	}
	info.Class(fmt.Sprintf("winners-that-gave-up-%d", len(cancelled)))
	reqs := svc.Log()[l0:]
	if svc.MaxInflight("x") > 1 {
		return h.V("single-flight", "%d requests for one name were in flight at once", svc.MaxInflight("x"))
	}
	survivors := 0
	for i := range results {
		r := results[i]
		if r.panicked {
			return h.V("never-a-panic", "caller %d (%s) panicked", i, c.Entries[i])
		}
		if cancelled[i] {
			continue // its own context ended: whatever it reports is its own business
		}
		survivors++
		if r.err != nil {
			return h.V("not-failed-by-anothers-cancellation", "caller %d (%s), whose context was never cancelled, failed: %v - after %d winner(s) %v had been cancelled one after the other and with the service ready to answer the next request; requests: %s", i, c.Entries[i], r.err, len(cancelled), owners, fmtReqs(reqs))
		}
		if r.val != xVal {
			return h.V("working-handle", "caller %d got %q, the service serves %q", i, r.val, xVal)
		}
	}
	if survivors > 0 {
		// Every handle and updater the callers ended up with - whichever of the successive flights it came
		// from - follows the next version the service activates.
		svc.Set("x", 4, []byte("8"))
		if err := st.Refresh(context.Background()); err != nil {
			return h.V("harness", "Refresh: %v", err)
		}
		for i, r := range results {
			if cancelled[i] || r.again == nil || r.err != nil {
				continue
			}
			if got := r.again(); got != "8" {
				clause := "polled-after-lookup"
				if prop == "C11" {
					clause = "fresh-after-successful-poll"
				}
				return h.V(clause, "caller %d (%s) obtained its handle after %d winner(s) had given up (%d requests were answered in all); after the service activated version 4 and Refresh returned nil it still yields %q, want %q", i, c.Entries[i], len(cancelled), len(reqs)-len(cancelled), got, "8")
			}
		}
		if len(reqs)-len(cancelled) >= 2 {
			info.Class("several-answered-flights-for-one-name")
		}
		if prop == "C11" {
			return nil
		}
	}
	if survivors > 0 {
		// one hung request per cancelled winner; then the waiting callers retry. They were all parked on
		// the flight that failed, so each may start a flight of its own once the previous (instantly
		// answered) one is over: between 1 and `survivors` answered requests, never two at once (above).
		if lo, hi := len(cancelled)+1, len(cancelled)+survivors; len(reqs) < lo || len(reqs) > hi {
			return h.V("no-automatic-retry", "%d winners gave up and %d callers were served: %d requests were sent, want %d..%d; %s", len(cancelled), survivors, len(reqs), lo, hi, fmtReqs(reqs))
		}
	}
	return nil
}

var c16winners = &h.Campaign[WinnersCase]{
	Prop: "C16", Sub: "winners",
	Rule: "rapid + testing/synctest: 2-8 callers (LookupSecret / NewUpdater / Fields.Apply, contexts cancellable only by the harness) look up one unknown name, started 0-700 ms apart; the first K (1-5) requests reaching the service hang, the harness reads from each request's context WHOSE request it is and cancels exactly that caller 1-20 s later; afterwards the service answers; every caller never cancelled must return a working handle, never two requests in flight, and at most one answered request per surviving caller; non-trivial = at least two successive winners gave up while others waited; distinct by scenario",
	Quick: 1500, Thorough: 100000,
	Gen: func(rt *rapid.T) WinnersCase {
		return WinnersCase{
			Entries: rapid.SliceOfN(rapid.SampledFrom([]string{"lookup", "lookup", "updater", "apply"}), 2, 8).Draw(rt, "entries"),
			Hangs:   rapid.IntRange(1, 5).Draw(rt, "hangs"),
			AfterS:  rapid.SampledFrom([]int{1, 2, 20}).Draw(rt, "after"),
			Stagger: rapid.SliceOfN(rapid.SampledFrom([]int{0, 1, 50, 700}), 1, 3).Draw(rt, "stagger"),
		}
	},
	Run: runC16Winners,
}

// ---- C16: several different names looked up at once over a slow cache ---------------------------
//
// "... and the secret is thereafter polled and cached like any other": lookups of DIFFERENT unknown
// names overlap while the cache device is slow.  When everything has settled the cache document
// must list every secret that was looked up successfully, and a store restarted from that cache
// during an outage of the service must know them all.  Real time (the store's lock is involved,
// which a synctest bubble cannot wait on), so the slow device is a gate the harness opens.

type LookupCacheCase struct {
	Names    []string `json:"names"`     // looked up concurrently, in this start order (may repeat)
	SlowCall int      `json:"slow_call"` // this cache Write call (1-based, counted after construction) is held ...
	HoldMs   int      `json:"hold_ms"`   // ... for this long (real time)
	GapUs    int      `json:"gap_us"`    // pause between starting the lookups
}

func runC16LookupCache(t *testing.T, c LookupCacheCase) (*h.Violation, h.Info) {
	var info h.Info
	svc := fake.NewSvc()
	svc.Set("d", 1, []byte("dv"))
	for i, n := range []string{"x", "y", "z", "w"} {
		svc.Set(n, uint32(3+i), []byte("val-"+n))
	}
	cache := fake.NewCache(nil)
	st, err := setec.NewStore(context.Background(), setec.StoreConfig{Client: svc, Secrets: []string{"d"}, AllowLookup: true, Cache: cache, PollInterval: -1, Logf: nolog})
	if err != nil {
		return h.V("harness", "NewStore: %v", err), info
	}
	base := cache.NumWriteCalls()
	held := make(chan struct{}, 1)
	cache.OnWrite = func(n int) {
		if n-base == c.SlowCall {
			held <- struct{}{}
			time.Sleep(time.Duration(c.HoldMs) * time.Millisecond)
		}
	}
	var wg sync.WaitGroup
	errs := make([]error, len(c.Names))
	for i, n := range c.Names {
		wg.Add(1)
		go func() {
			defer wg.Done()
			hd, err := st.LookupSecret(context.Background(), n)
			if err == nil && string(hd.Get()) != "val-"+n {
				err = fmt.Errorf("handle yields %q", hd.Get())
			}
			errs[i] = err
		}()
		if i == 0 && c.SlowCall == 1 {
			select { // let the first lookup reach the slow device before the others start
			case <-held:
				info.Class("others-start-while-a-cache-write-is-held")
			case <-time.After(200 * time.Millisecond):
			}
		} else {
			time.Sleep(time.Duration(c.GapUs) * time.Microsecond)
		}
	}
	wg.Wait()
	cache.OnWrite = nil
	distinct := map[string]bool{}
	for i, n := range c.Names {
		if errs[i] != nil {
			st.Close()
			return h.V("harness", "lookup %q: %v", n, errs[i]), info
		}
		distinct[n] = true
	}
	if len(distinct) >= 2 {
		info.NonTrivial = true
	}
	var want []string
	for n := range distinct {
		want = append(want, n)
	}
	sort.Strings(want)
	doc, err := model.DecodeCacheStrict(cache.Data())
	if err != nil {
		st.Close()
		return h.V("cached-after-lookup", "cache document: %v", err), info
	}
	for _, n := range append([]string{"d"}, want...) {
		if e, ok := doc[n]; !ok || string(e.Value) != map[bool]string{true: "dv", false: "val-" + n}[n == "d"] {
			st.Close()
			return h.V("cached-after-lookup", "every lookup of %v returned a working handle, but the cache document that was written last lacks %q (or holds other bytes): %s", want, n, cache.Data()), info
		}
	}
	st.Close()
	// outage + restart from that cache
	svc2 := fake.NewSvc()
	bctx, bcancel := context.WithTimeout(context.Background(), 1500*time.Millisecond)
	defer bcancel()
	st2, err := setec.NewStore(bctx, setec.StoreConfig{Client: svc2, Secrets: []string{"d"}, AllowLookup: true, Cache: fake.NewCache(cache.Data()), PollInterval: -1, Logf: nolog})
	if err != nil {
		return h.V("cached-after-lookup", "a store restarted from the cache while the service is away: %v", err), info
	}
	defer st2.Close()
	for _, n := range want {
		if hd := st2.Secret(n); hd == nil || string(hd.Get()) != "val-"+n {
			return h.V("cached-after-lookup", "after a restart from the cache, %q (looked up successfully before) is not known", n), info
		}
	}
	return nil, info
}

var c16lookupCache = &h.Campaign[LookupCacheCase]{
	Prop: "C16", Sub: "lookup-cache",
	Rule: "rapid, real time: 2-6 concurrent LookupSecret calls over 1-4 different unknown names on a store whose cache device holds one generated Write call for 1-8 ms (the later lookups start once that write is being held, or after generated pauses); afterwards the last cache document must list every looked-up secret with its bytes, and a store restarted from it with the service away must know them all; non-trivial = at least two different names; distinct by (scenario, run) because the interleaving is sampled",
	Quick: 400, Thorough: 20000,
	Gen: func(rt *rapid.T) LookupCacheCase {
		return LookupCacheCase{
			Names:    rapid.SliceOfN(rapid.SampledFrom([]string{"x", "y", "z", "w"}), 2, 6).Draw(rt, "names"),
			SlowCall: rapid.SampledFrom([]int{1, 1, 1, 2, 3}).Draw(rt, "slow"),
			HoldMs:   rapid.SampledFrom([]int{1, 3, 8}).Draw(rt, "hold"),
			GapUs:    rapid.SampledFrom([]int{0, 50, 500}).Draw(rt, "gap"),
		}
	},
	Run: runC16LookupCache,
	Key: func(c LookupCacheCase) any { return fmt.Sprintf("%v/%d", c, nonce.Add(1)) },
}

// C11 (handles obtained through repeated lookups): "when Refresh completes without error, every secret
// the store knows yields the version that was active during that poll" - also through handles that
// were handed out by DIFFERENT lookup flights for the same name (waiting callers each start a flight of
// their own after a winner gave up). The same scenarios as the C16 winners; only freshness is judged.
var c11lookups = &h.Campaign[WinnersCase]{
	Prop: "C11", Sub: "handles-from-repeated-lookups",
	Rule: "rapid + testing/synctest: the C16 'winners' scenarios (2-8 callers look one unknown name up, the first 1-5 requests hang and their owners are cancelled, the rest is answered by one or several successive flights); then the service activates a new version, Refresh returns nil, and every handle / updater any caller obtained must yield the new bytes; non-trivial = at least two answered flights for the name; distinct by scenario",
	Quick: 800, Thorough: 60000,
	Gen:   func(rt *rapid.T) WinnersCase { return c16winners.Gen(rt) },
	Run: func(t *testing.T, c WinnersCase) (v *h.Violation, info h.Info) {
		synctest.Test(t, func(t *testing.T) { v = runC16WinnersBubble(c, &info, "C11") })
		nt := false
		for _, cl := range info.Classes {
			if cl == "several-answered-flights-for-one-name" {
				nt = true
			}
		}
		info.NonTrivial = nt
		if v != nil && v.Clause != "fresh-after-successful-poll" {
			v = nil // everything else is C16's to report
		}
		return
	},
}

func init() { c16winners.Register(); c16lookupCache.Register(); c11lookups.Register() }

func TestC11HandlesFromRepeatedLookups(t *testing.T) { c11lookups.Check(t) }

func TestC16Winners(t *testing.T)     { c16winners.Check(t) }
func TestC16LookupCache(t *testing.T) { c16lookupCache.Check(t) }
