package aclp

import (
	"fmt"
	"strings"
	"testing"
	"unicode/utf8"

	"github.com/tailscale/setec/acl"
	"pgregory.net/rapid"
	"verifharness/h"
	"verifharness/model"
)

// ---- C07: whole-name globs ------------------------------------------------

type MatchCase struct {
	Pattern string `json:"pattern"`
	Name    string `json:"name"`
}

func runMatch(_ *testing.T, c MatchCase) (*h.Violation, h.Info) {
	var info h.Info
	want := model.GlobMatch(c.Pattern, c.Name)
	hasStar := strings.Contains(c.Pattern, "*")
	lit := strings.ReplaceAll(c.Pattern, "*", "") != ""
	special := strings.ContainsAny(c.Name, "\n\r.+()[]{}|^$?\\/") || strings.ContainsAny(c.Pattern, "\n\r.+()[]{}|^$?\\/")
	info.NonTrivial = (hasStar && lit) || special
	if n := strings.Count(c.Pattern, "*"); n >= 8 {
		info.Class("stars>=8")
	}
	if hasStar {
		info.Class("star")
	} else {
		info.Class("nostar")
	}
	if want {
		info.Class("model-match")
	} else {
		info.Class("model-nomatch")
	}
	if strings.Contains(c.Name, "\n") {
		info.Class("name-has-newline")
	}
	got := acl.Secret(c.Pattern).Match(c.Name)
	if got != want {
		v := h.V("glob-semantics", "Secret(%q).Match(%q) = %v, glob model says %v", c.Pattern, c.Name, got, want)
		if strings.ContainsAny(c.Name, "\n") && hasStar {
			v.Sig = "glob-semantics/newline-under-star"
		}
		return v, info
	}
	if !hasStar && got != (c.Pattern == c.Name) {
		return h.V("no-star-is-equality", "pattern %q without '*' vs %q: %v", c.Pattern, c.Name, got), info
	}
	return nil, info
}

var matchCampaign = &h.Campaign[MatchCase]{
	Prop: "C07", Sub: "match",
	Rule: "rapid: patterns = random-Unicode literal pieces (regex metacharacters, newlines, combining marks, 4-byte runes) joined by '*'; names constructed to match and then perturbed; non-trivial = pattern has both '*' and a literal piece, or pattern/name contains newline, '/', or a regexp metacharacter; distinct by (pattern,name)",
	Quick: 30000, Thorough: 6000000,
	Gen: genMatchCase,
	Run: runMatch,
}

var pieceAlphabet = []rune{'a', 'b', 'a', 'b', '/', '.', '\n', '+', '(', ')', '[', ']', '{', '}', '|', '^', '$', '?', '\\', 'Q', 'E', '-', ' ', '\r', '\t', 0, 'é', '́', 'ß', '世', '😀', '\U0010FFFF', ' '}

func genPiece(maxLen int) *rapid.Generator[string] {
	return rapid.Custom(func(rt *rapid.T) string {
		if rapid.IntRange(0, 9).Draw(rt, "free") == 0 {
			// arbitrary valid UTF-8 without '*'
			s := rapid.StringN(0, maxLen, -1).Draw(rt, "s")
			return strings.ReplaceAll(s, "*", "x")
		}
		rs := rapid.SliceOfN(rapid.SampledFrom(pieceAlphabet), 0, maxLen).Draw(rt, "rs")
		return string(rs)
	})
}

func genMatchCase(rt *rapid.T) MatchCase {
	big := rapid.IntRange(0, 19).Draw(rt, "big") == 0
	maxPiece := 4
	if big {
		maxPiece = 60
	}
	nPieces := rapid.IntRange(1, 5).Draw(rt, "npieces")
	if rapid.IntRange(0, 9).Draw(rt, "manystars") == 0 {
		nPieces = rapid.IntRange(6, 40).Draw(rt, "manypieces") // many '*' (also runs of '*', since pieces may be empty)
		maxPiece = 2
	}
	pieces := make([]string, nPieces)
	for i := range pieces {
		pieces[i] = genPiece(maxPiece).Draw(rt, "piece")
	}
	pattern := strings.Join(pieces, "*")
	// Build a name that matches by construction: pieces interleaved with fillers.
	var sb strings.Builder
	for i, p := range pieces {
		if i > 0 {
			sb.WriteString(genPiece(maxPiece).Draw(rt, "filler"))
		}
		sb.WriteString(p)
	}
	name := sb.String()
	switch rapid.IntRange(0, 7).Draw(rt, "perturb") {
	case 0, 1, 2: // keep: should match
	case 3: // drop one rune
		rs := []rune(name)
		if len(rs) > 0 {
			i := rapid.IntRange(0, len(rs)-1).Draw(rt, "i")
			name = string(append(rs[:i:i], rs[i+1:]...))
		}
	case 4: // alter one rune
		rs := []rune(name)
		if len(rs) > 0 {
			i := rapid.IntRange(0, len(rs)-1).Draw(rt, "i")
			rs[i] = rapid.SampledFrom(pieceAlphabet).Draw(rt, "r")
			name = string(rs)
		}
	case 5: // prefix / suffix junk (anchoring)
		j := genPiece(3).Draw(rt, "junk")
		if rapid.Bool().Draw(rt, "front") {
			name = j + name
		} else {
			name = name + j
		}
	case 6: // swap two pieces' order in the name
		if len(pieces) >= 2 {
			name = pieces[len(pieces)-1] + name + pieces[0]
		}
	case 7: // unrelated
		name = genPiece(8).Draw(rt, "other")
	}
	if rapid.IntRange(0, 15).Draw(rt, "literalstar") == 0 {
		name += "*"
	}
	return MatchCase{Pattern: pattern, Name: name}
}

func init() { matchCampaign.Register(); rulesCampaign.Register() }

func TestC07Match(t *testing.T) { matchCampaign.Check(t) }

// Exhaustive enumeration over a small alphabet.
func TestC07Exhaustive(t *testing.T) {
	alpha := []byte{'a', '*', '/', '.', '\n', '+'}
	pl, nl := 3, 4
	if h.Thorough() {
		pl, nl = 4, 5
	}
	rec := h.NewRec("C07", "exhaustive", fmt.Sprintf("every pattern of length <= %d and every name of length <= %d over the alphabet {a,*,/,.,\\n,+}; non-trivial = pattern has '*' and a literal, or a newline/'/'/metacharacter occurs; distinct by (pattern,name)", pl, nl))
	defer rec.Flush()
	var all func(n int) []string
	all = func(n int) []string {
		out := []string{""}
		prev := []string{""}
		for l := 1; l <= n; l++ {
			var cur []string
			for _, p := range prev {
				for _, c := range alpha {
					cur = append(cur, p+string(c))
				}
			}
			out = append(out, cur...)
			prev = cur
		}
		return out
	}
	pats, names := all(pl), all(nl)
	sh, k := h.Shard()
	evals, nt := 0, 0
	for pi, p := range pats {
		if pi%k != sh {
			continue
		}
		for _, n := range names {
			c := MatchCase{p, n}
			var info h.Info
			v := h.Safely(func() *h.Violation { vv, ii := runMatch(t, c); info = ii; return vv })
			if v != nil && v.Sig == "panic" {
				v.Clause, v.Detail = "evaluation-never-panics", fmt.Sprintf("Secret(%q).Match(%q): %s", p, n, v.Detail)
			}
			evals++
			if info.NonTrivial {
				nt++
				if nt%50021 == 1 {
					rec.AddSample(c) // a few of the enumerated pairs, as they come
				}
			}
			if v != nil {
				path := h.WriteFailure("C07", "match", v, c)
				h.Report("C07", "match", v, path)
				rec.AddEvaluations(evals)
				t.Fatalf("%s: %s", v.Clause, v.Detail)
			}
		}
	}
	rec.AddEvaluations(evals)
	rec.Set("nontrivial_count_exact", nt) // all pairs are distinct by construction
	rec.Set("patterns", len(pats))
	rec.Set("names", len(names))
	rec.Exhaustive()
	rec.Completed()
}

// ---- rule sets ---------------------------------------------------------

type RuleM struct {
	Action []string `json:"action"`
	Secret []string `json:"secret"`
}

type RulesCase struct {
	Rules  []RuleM `json:"rules"`
	Extra  RuleM   `json:"extra"` // appended for the monotonicity relation
	Action string  `json:"action"`
	Name   string  `json:"name"`
}

func toACL(rs []RuleM) acl.Rules {
	out := acl.Rules{}
	for _, r := range rs {
		var ar acl.Rule
		for _, a := range r.Action {
			ar.Action = append(ar.Action, acl.Action(a))
		}
		for _, s := range r.Secret {
			ar.Secret = append(ar.Secret, acl.Secret(s))
		}
		out = append(out, ar)
	}
	return out
}

func modelAllow(rs []RuleM, action, name string) bool {
	for _, r := range rs {
		actOK := false
		for _, a := range r.Action {
			if a == action {
				actOK = true
			}
		}
		if !actOK {
			continue
		}
		for _, p := range r.Secret {
			if model.GlobMatch(p, name) {
				return true
			}
		}
	}
	return false
}

func runRules(_ *testing.T, c RulesCase) (*h.Violation, h.Info) {
	var info h.Info
	want := modelAllow(c.Rules, c.Action, c.Name)
	got := toACL(c.Rules).Allow(acl.Action(c.Action), c.Name)
	// split: is there a rule with the action but non-matching pattern and another with matching pattern but not the action?
	actOnly, patOnly := false, false
	for _, r := range c.Rules {
		a := modelAllow([]RuleM{{Action: r.Action, Secret: []string{"*"}}}, c.Action, c.Name)
		p := modelAllow([]RuleM{{Action: []string{c.Action}, Secret: r.Secret}}, c.Action, c.Name)
		if a && !p {
			actOnly = true
		}
		if p && !a {
			patOnly = true
		}
	}
	if actOnly && patOnly {
		info.Class("split-across-rules")
	}
	if len(c.Rules) == 0 {
		info.Class("empty-set")
	}
	if want {
		info.Class("allowed")
	} else {
		info.Class("denied")
	}
	info.NonTrivial = len(c.Rules) >= 2 && (actOnly || patOnly || want)
	if got != want {
		return h.V("rules-allow", "Rules(%+v).Allow(%q,%q) = %v, model %v", c.Rules, c.Action, c.Name, got, want), info
	}
	if len(c.Rules) == 0 && got {
		return h.V("empty-set-allows-nothing", "empty rule set allowed (%q,%q)", c.Action, c.Name), info
	}
	// metamorphic: adding a rule never revokes.
	more := append(append([]RuleM{}, c.Rules...), c.Extra)
	got2 := toACL(more).Allow(acl.Action(c.Action), c.Name)
	if got && !got2 {
		return h.V("adding-a-rule-never-revokes", "allowed with %+v, denied after appending %+v", c.Rules, c.Extra), info
	}
	if got2 != modelAllow(more, c.Action, c.Name) {
		return h.V("rules-allow", "after append: Allow=%v model=%v rules=%+v", got2, !got2, more), info
	}
	// single Rule.Allow agrees as well
	for i, r := range c.Rules {
		ar := toACL([]RuleM{r})[0]
		if ar.Allow(acl.Action(c.Action), c.Name) != modelAllow([]RuleM{r}, c.Action, c.Name) {
			return h.V("rule-allow", "rule %d %+v on (%q,%q) disagrees with model", i, r, c.Action, c.Name), info
		}
	}
	return nil, info
}

var actionPool = []string{"get", "info", "put", "activate", "delete", "Get", "get ", "", "*", "list"}
var namePool = []string{"a", "b", "dev/a", "dev/b", "prod/a", "a*", "a\nb", "_internal/x", "", "dev/", "dev", "x.y", "xzy"}
var patPool = []string{"*", "a", "b", "dev/*", "*a", "d*/a", "**", "", "a*", "*/*", "x.y", "dev/a", "prod/*", "*\n*", "a?b", "_internal/*"}

func genRule(rt *rapid.T) RuleM {
	return RuleM{
		Action: rapid.SliceOfN(rapid.SampledFrom(actionPool), 0, 4).Draw(rt, "actions"),
		Secret: rapid.SliceOfN(rapid.OneOf(rapid.SampledFrom(patPool), rapid.SampledFrom(namePool)), 0, 3).Draw(rt, "patterns"),
	}
}

var rulesCampaign = &h.Campaign[RulesCase]{
	Prop: "C07", Sub: "rules",
	Rule: "rapid: 0-4 rules, each a multiset of actions (the five real ones plus near-misses) and 0-3 patterns from exact names and wildcard shapes; queried (action,name) from pools; metamorphic partner = same set plus one more rule; non-trivial = >=2 rules and (the query is allowed, or action and pattern are satisfied only by different rules); distinct by scenario",
	Quick: 20000, Thorough: 3000000,
	Gen: func(rt *rapid.T) RulesCase {
		return RulesCase{
			Rules:  rapid.SliceOfN(rapid.Custom(genRule), 0, 4).Draw(rt, "rules"),
			Extra:  genRule(rt),
			Action: rapid.SampledFrom(actionPool[:7]).Draw(rt, "action"),
			Name:   rapid.SampledFrom(namePool).Draw(rt, "name"),
		}
	},
	Run: runRules,
}

func TestC07Rules(t *testing.T) { rulesCampaign.Check(t) }

func TestReplay(t *testing.T) { h.Replay(t, "C07") }

// Native fuzz target: coverage-guided over (pattern, name); invalid UTF-8 is
// outside the claimed domain and skipped.
func FuzzC07Match(f *testing.F) {
	for _, s := range [][2]string{{"*", "a\nb"}, {".*", "ab"}, {"a+", "aa"}, {"[a]", "a"}, {"\\Q*\\E", "\\Qx\\E"}, {"a*b*c", "aXbYc"}, {"dev/*", "dev/x/y"}, {"", ""}, {"**", ""}, {"a*", "a*"}, {"*a", "ba\n"}, {"(?i)a", "A"}, {"a|b", "a"}, {"^a$", "a"}, {"a$*", "a$\n"}, {"************", "x"}, {"a*b*c*d*e*f*g*h*i*j", "abcdefghij"}} {
		f.Add(s[0], s[1])
	}
	f.Fuzz(func(t *testing.T, pattern, name string) {
		if !utf8.ValidString(pattern) || !utf8.ValidString(name) {
			t.Skip()
		}
		c := MatchCase{pattern, name}
		v := h.Safely(func() *h.Violation { v, _ := runMatch(t, c); return v })
		if v != nil {
			p := h.WriteFailure("C07", "match", v, c)
			h.Report("C07", "match", v, p)
			t.Fatalf("%s: %s", v.Clause, v.Detail)
		}
	})
}
