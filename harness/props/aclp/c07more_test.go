package aclp

import (
	"errors"
	"fmt"
	"path/filepath"
	"strings"
	"sync"
	"sync/atomic"
	"testing"

	"github.com/tailscale/setec/acl"
	"github.com/tailscale/setec/audit"
	"github.com/tailscale/setec/db"
	"pgregory.net/rapid"
	"verifharness/dbx"
	"verifharness/h"
	"verifharness/model"
)

// ---- C07: the answer depends on (pattern, name) only - not on what was evaluated before ------------
//
// Many DIFFERENT patterns are evaluated in one process (a policy with hundreds of rules, a long-lived
// server), then earlier ones are evaluated again: every answer, first time and later, equals the
// model's. An implementation that remembers compiled patterns must not mix them up.

type RevisitCase struct {
	Patterns []string `json:"patterns"` // evaluated in order, then again from the start
	Names    []string `json:"names"`
	Rounds   int      `json:"rounds"`
}

func runRevisit(t *testing.T, c RevisitCase) (*h.Violation, h.Info) {
	var info h.Info
	distinct := map[string]bool{}
	for _, p := range c.Patterns {
		distinct[p] = true
	}
	info.NonTrivial = len(distinct) > 64
	if len(distinct) > 200 {
		info.Class("more-than-200-distinct-patterns")
	}
	for round := 0; round < c.Rounds; round++ {
		for pi, p := range c.Patterns {
			for _, n := range c.Names {
				want := model.GlobMatch(p, n)
				var got bool
				if v := h.Safely(func() *h.Violation { got = acl.Secret(p).Match(n); return nil }); v != nil {
					return h.V("evaluation-never-panics", "round %d, pattern %d of %d (%q) against %q: %s", round, pi, len(c.Patterns), p, n, v.Detail), info
				}
				if got != want {
					return h.V("glob-semantics", "round %d, after %d other patterns had been evaluated in this process: Secret(%q).Match(%q) = %v, model %v", round, round*len(c.Patterns)+pi, p, n, got, want), info
				}
				// the same through a one-rule rule set
				if allowed := (acl.Rules{{Action: []acl.Action{acl.ActionGet}, Secret: []acl.Secret{acl.Secret(p)}}}).Allow(acl.ActionGet, n); allowed != want {
					return h.V("rules-allow", "round %d: a rule with the single pattern %q allows get on %q = %v, model %v (after %d other patterns)", round, p, n, allowed, want, round*len(c.Patterns)+pi), info
				}
			}
		}
	}
	return nil, info
}

var revisitCampaign = &h.Campaign[RevisitCase]{
	Prop: "C07", Sub: "revisit",
	Rule:  "rapid: 70-260 patterns, mostly distinct (numbered families like team017/* and *-017, plus generated ones), each evaluated against 2-4 names, the whole list 2-3 times over in one process; every answer - first time and on every revisit, directly and through a one-rule rule set - equals the model's; non-trivial = more than 64 distinct patterns; distinct by scenario",
	Quick: 25, Thorough: 3000,
	Gen: func(rt *rapid.T) RevisitCase {
		n := rapid.SampledFrom([]int{70, 70, 130, 260}).Draw(rt, "n")
		shape := rapid.SampledFrom([]string{"team%03d/*", "*-%03d", "a*%03d*z", "%03d"}).Draw(rt, "shape")
		c := RevisitCase{Rounds: rapid.IntRange(2, 3).Draw(rt, "rounds")}
		for i := 0; i < n; i++ {
			if i%9 == 8 {
				c.Patterns = append(c.Patterns, genMatchCase(rt).Pattern)
			} else {
				c.Patterns = append(c.Patterns, fmt.Sprintf(shape, i))
			}
		}
		k := rapid.IntRange(0, n-1).Draw(rt, "k")
		c.Names = []string{fmt.Sprintf("team%03d/key", k), fmt.Sprintf("x-%03d", k), fmt.Sprintf("a-%03d-z", (k+n/2)%n), fmt.Sprintf("%03d", k)}[:rapid.IntRange(2, 4).Draw(rt, "nnames")]
		return c
	},
	Run: runRevisit,
}

// ---- C07: several goroutines evaluating DIFFERENT patterns at the same time ---------------------------

type ParallelCase struct {
	Workers int      `json:"workers"`
	Pats    []string `json:"patterns"` // worker i uses Pats[i%len]
	Iters   int      `json:"iters"`
}

func runParallel(t *testing.T, c ParallelCase) (*h.Violation, h.Info) {
	var info h.Info
	info.NonTrivial = c.Workers >= 2
	var mu sync.Mutex
	var bad *h.Violation
	var wg sync.WaitGroup
	start := make(chan struct{})
	for w := 0; w < c.Workers; w++ {
		wg.Add(1)
		go func() {
			defer wg.Done()
			p := c.Pats[w%len(c.Pats)]
			names := []string{fmt.Sprintf("team%d/key", w%len(c.Pats)), fmt.Sprintf("team%d/key", (w+1)%len(c.Pats)), "other", p}
			want := make([]bool, len(names))
			for i, n := range names {
				want[i] = model.GlobMatch(p, n)
			}
			<-start
			for it := 0; it < c.Iters; it++ {
				for i, n := range names {
					var got bool
					if v := h.Safely(func() *h.Violation { got = acl.Secret(p).Match(n); return nil }); v != nil {
						mu.Lock()
						bad = h.V("evaluation-never-panics", "worker %d: Secret(%q).Match(%q) with %d goroutines evaluating other patterns: %s", w, p, n, c.Workers, v.Detail)
						mu.Unlock()
						return
					}
					if got != want[i] {
						mu.Lock()
						bad = h.V("glob-semantics", "worker %d of %d, iteration %d: Secret(%q).Match(%q) = %v, model %v, while other goroutines evaluate other patterns", w, c.Workers, it, p, n, got, want[i])
						mu.Unlock()
						return
					}
				}
			}
		}()
	}
	close(start)
	wg.Wait()
	return bad, info
}

var parallelCampaign = &h.Campaign[ParallelCase]{
	Prop: "C07", Sub: "parallel",
	Rule:  "rapid: 2-8 goroutines, each evaluating its own wildcard pattern (team<i>/*, *<i>/key, ...) against matching and non-matching names 300-3 000 times, started together; every answer equals the model's; non-trivial = at least two goroutines; distinct by (scenario, run) because the interleaving is sampled",
	Quick: 30, Thorough: 3000,
	Gen: func(rt *rapid.T) ParallelCase {
		w := rapid.IntRange(2, 8).Draw(rt, "workers")
		shape := rapid.SampledFrom([]string{"team%d/*", "*%d/key", "team%d/k*y", "t*m%d/*"}).Draw(rt, "shape")
		c := ParallelCase{Workers: w, Iters: rapid.SampledFrom([]int{300, 300, 3000}).Draw(rt, "iters")}
		for i := 0; i < w; i++ {
			c.Pats = append(c.Pats, fmt.Sprintf(shape, i))
		}
		return c
	},
	Run: runParallel,
	Key: func(c ParallelCase) any { return fmt.Sprintf("%v/%d", c, parNonce.Add(1)) },
}

func init() { revisitCampaign.Register(); parallelCampaign.Register() }

func TestC07Revisit(t *testing.T)  { revisitCampaign.Check(t) }
func TestC07Parallel(t *testing.T) { parallelCampaign.Check(t) }

var parNonce atomic.Int64

// ---- C07: ONE rule-set value is asked many questions; and the same decisions through the database -----
//
// A program (or a server that keeps a node's grants around) evaluates the same acl.Rules value for
// different actions and names, in any order: every answer equals the model's, the answer to a
// question does not depend on what was asked before.  The second
// half asks the database layer the same questions (read operations as a caller holding exactly those
// rules): "refused" there must coincide with the model's "not allowed" - names are opaque strings on
// that path too ('/', '.', "..", doubled slashes mean nothing).

type Ask struct {
	Action string `json:"action"`
	Name   string `json:"name"`
}

type ManyAsksCase struct {
	Rules []RuleM  `json:"rules"`
	Asks  []Ask    `json:"asks"`
	Swap  []string `json:"swap,omitempty"` // patterns that replace the rules' patterns in place, in order (empty = no edit)
}

func runManyAsks(t *testing.T, c ManyAsksCase) (*h.Violation, h.Info) {
	var info h.Info
	rules := toACL(c.Rules)
	acts := map[string]bool{}
	for i, a := range c.Asks {
		acts[a.Action] = true
		want := modelAllow(c.Rules, a.Action, a.Name)
		var got bool
		if v := h.Safely(func() *h.Violation { got = rules.Allow(acl.Action(a.Action), a.Name); return nil }); v != nil {
			return h.V("evaluation-never-panics", "question %d (%q,%q): %s", i, a.Action, a.Name, v.Detail), info
		}
		if got != want {
			return h.V("rules-allow", "one rule-set value %+v is asked %d questions in a row; question %d, Allow(%q,%q), is answered %v, the model says %v (questions before it: %+v)", c.Rules, len(c.Asks), i, a.Action, a.Name, got, want, c.Asks[:i]), info
		}
	}
	info.NonTrivial = len(c.Rules) >= 2 && len(acts) >= 2
	// The policy is edited IN PLACE - the same rule-set value, the same rules, the same number of
	// patterns, other pattern texts (a program that reloads its policy into the variable it has) - and
	// asked again: the answers follow the patterns the rules hold NOW.
	if len(c.Swap) > 0 {
		edited := make([]RuleM, len(c.Rules))
		for i, r := range c.Rules {
			edited[i] = RuleM{Action: r.Action, Secret: append([]string{}, r.Secret...)}
		}
		k := 0
		for i := range rules {
			for j := range rules[i].Secret {
				p := c.Swap[k%len(c.Swap)]
				k++
				rules[i].Secret[j] = acl.Secret(p)
				edited[i].Secret[j] = p
			}
		}
		if k > 0 {
			info.Class("policy-edited-in-place")
			for i, a := range c.Asks {
				want := modelAllow(edited, a.Action, a.Name)
				var got bool
				if v := h.Safely(func() *h.Violation { got = rules.Allow(acl.Action(a.Action), a.Name); return nil }); v != nil {
					return h.V("evaluation-never-panics", "after the edit, question %d (%q,%q): %s", i, a.Action, a.Name, v.Detail), info
				}
				if got != want {
					return h.V("rules-allow", "the rule set %+v was evaluated, then its patterns were replaced in place (same rules, same counts): it now reads %+v, yet Allow(%q,%q) answers %v, the model says %v", c.Rules, edited, a.Action, a.Name, got, want), info
				}
			}
		}
	}
	// the same questions to the database layer
	d, err := dbx.OpenDiscard(filepath.Join(h.Scratch(t), "db"), dbx.DummyKey())
	if err != nil {
		return h.V("harness", "open: %v", err), info
	}
	caller := db.Caller{Principal: audit.Principal{User: "asker@example.com", Hostname: "asker"}, Permissions: toACL(c.Rules)}
	// a listing is a question about every stored name at once: each name is shown iff ONE rule lists
	// info and matches it (the asked-about names are stored first, by somebody who may)
	root := db.Caller{Principal: audit.Principal{User: "root@example.com", Hostname: "root"}, Permissions: acl.Rules{{Action: []acl.Action{acl.ActionPut}, Secret: []acl.Secret{"*"}}}}
	stored := map[string]bool{}
	for _, a := range c.Asks {
		if a.Name != "" && !strings.HasPrefix(a.Name, "_internal/") && !stored[a.Name] {
			if _, err := d.Put(root, a.Name, []byte("v")); err == nil {
				stored[a.Name] = true
			}
		}
	}
	if infos, err := d.List(caller); err != nil {
		return h.V("rules-allow", "through the database API: List as a caller holding %+v fails: %v", c.Rules, err), info
	} else {
		shown := map[string]bool{}
		for _, in := range infos {
			shown[in.Name] = true
		}
		for n := range stored {
			if want := modelAllow(c.Rules, "info", n); shown[n] != want {
				return h.V("rules-allow", "through the database API: a listing for a caller holding %+v shows %q = %v; the model says a single rule listing info and matching the name exists = %v", c.Rules, n, shown[n], want), info
			}
		}
		info.Class("listing-through-the-database-api")
	}
	for i, a := range c.Asks {
		if a.Name == "" {
			continue
		}
		var err error
		switch a.Action {
		case "get":
			_, err = d.Get(caller, a.Name)
		case "info":
			_, err = d.Info(caller, a.Name)
		case "delete":
			err = d.Delete(caller, a.Name) // (of a secret that does not exist: allowed means "nothing to do")
		default:
			continue
		}
		refused := errors.Is(err, db.ErrAccessDenied)
		if want := modelAllow(c.Rules, a.Action, a.Name); refused == want {
			return h.V("rules-allow", "through the database API: question %d, %s on %q as a caller holding %+v, is refused=%v (%v); the model says allowed=%v", i, a.Action, a.Name, c.Rules, refused, err, want), info
		}
		info.Class("asked-through-the-database-api")
	}
	return nil, info
}

var manyAsks = &h.Campaign[ManyAsksCase]{
	Prop: "C07", Sub: "one-rule-set-many-questions",
	Rule:  "rapid: a rule set of 1-4 generated rules, built ONCE, is asked 2-12 generated (action, name) questions in a row - names include spellings a path cleaner would alter (dev/../prod/a, dev//a, dev/a/, ./a); every answer equals the model's whatever was asked before; then the read/delete questions are put to a database as a caller holding those rules: refused exactly when the model does not allow; non-trivial = at least two rules and two different actions asked; distinct by scenario",
	Quick: 3000, Thorough: 400000,
	Gen: func(rt *rapid.T) ManyAsksCase {
		names := append(append([]string{}, namePool...), "dev/../prod/a", "dev//a", "dev/a/", "./a", "prod/a/..", "dev/./a", "Dev/a")
		return ManyAsksCase{
			Rules: rapid.SliceOfN(rapid.Custom(genRule), 1, 4).Draw(rt, "rules"),
			Asks: rapid.SliceOfN(rapid.Custom(func(rt *rapid.T) Ask {
				return Ask{Action: rapid.SampledFrom([]string{"get", "info", "put", "activate", "delete", "get", "info"}).Draw(rt, "action"), Name: rapid.SampledFrom(names).Draw(rt, "name")}
			}), 2, 12).Draw(rt, "asks"),
			Swap: rapid.SliceOfN(rapid.SampledFrom(patPool), 0, 4).Draw(rt, "swap"),
		}
	},
	Run: runManyAsks,
}

func init() { manyAsks.Register() }

func TestC07OneRuleSetManyQuestions(t *testing.T) { manyAsks.Check(t) }
