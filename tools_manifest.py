#!/usr/bin/env python3
"""Regenerates MANIFEST.json from the table below + the driver's CHECKS table."""
import json, importlib.machinery, importlib.util, os, sys
ROOT = os.path.dirname(os.path.abspath(__file__))
loader = importlib.machinery.SourceFileLoader("check", os.path.join(ROOT, "check"))
spec = importlib.util.spec_from_loader("check", loader)
check = importlib.util.module_from_spec(spec); loader.exec_module(check)

TEXT = json.load(open(os.path.join(ROOT, "manifest_text.json")))
props = [json.loads(l)["id"] for l in open(os.path.join(ROOT, "properties.jsonl"))]
checks, na = [], []
for pid in props:
    if pid in check.CHECKS and pid in TEXT["claimed"]:
        c, t = check.CHECKS[pid], TEXT["claimed"][pid]
        checks.append({
            "property_id": pid,
            "quick_cmd": "./check %s --tier quick" % pid,
            "thorough_cmd": "./check %s --tier thorough" % pid,
            "replay_cmd_template": "./check %s --replay {path}" % pid,
            "evidence_file": "evidence/%s.json" % pid,
            "engine": "rapid+gofuzz",
            "level_claimed": {"category": c["level"], "text": t["level_text"], "design_ref": t["design_ref"]},
            "level_note": t["level_note"],
            "technique": t["technique"],
        })
    else:
        na.append({"property_id": pid, "reason": TEXT["not_applicable"].get(pid, "check not built yet in this session; the design (DESIGN.md section 4) covers it")})
m = {
    "version": 1,
    "setup_cmd": "./check --setup",
    "hooks": {
        "guard": "verif",
        "enable": "Go build tag: go test -tags verif (the driver passes it to every build)",
        "baseline_off_cmd": "cd /repo && GOPROXY=off go test -vet=off -count=1 ./...",
        "source_commits": TEXT["hook_commits"],
        "add_only": True,
    },
    "engines": [
        {"name": "rapid+gofuzz", "path": "harness/", "serves_properties": [c["property_id"] for c in checks],
         "kind_free_text": "Go test binaries built from /repo's working tree: pgregory.net/rapid v1.3.0 generators + shrinking over JSON-serialisable scenarios, explicit oracles in harness/model, testing/synctest virtual time, Go native fuzz targets in the thorough tier, strace syscall fault injection for crash points; driver ./check merges per-process statistics into evidence/"},
    ],
    "checks": checks,
    "not_applicable": na,
    "notes": TEXT["notes"],
}
json.dump(m, open(os.path.join(ROOT, "MANIFEST.json"), "w"), indent=1)
print("claimed:", [c["property_id"] for c in checks]); print("not claimed:", [n["property_id"] for n in na])
