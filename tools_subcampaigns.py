#!/usr/bin/env python3
"""Regenerates the table of DESIGN.md section 9.7 (sub-campaigns as built) from the committed
evidence files.  Usage: python3 tools_subcampaigns.py  (rewrites the table in place)."""
import glob, json, os, re
ROOT = os.path.dirname(os.path.abspath(__file__))
rows, n = [], 0
for f in sorted(glob.glob(os.path.join(ROOT, "evidence", "C*.json"))):
    e = json.load(open(f))
    for sub, s in sorted(e["coverage"].get("subcampaigns", {}).items()):
        rows.append("| %s | %s | %d | %d | %s |" % (e["property_id"], sub, s["evaluations"], s["distinct_nontrivial"], "yes" if s.get("exhaustive") else ""))
        n += 1
d = open(os.path.join(ROOT, "DESIGN.md")).read()
head = "| property | sub-campaign | evaluations | distinct non-trivial | exhaustive |\n|---|---|---|---|---|\n"
a = d.index(head) + len(head)
b = a
while d.startswith("| ", b):
    b = d.index("\n", b) + 1
d = d[:a] + "\n".join(rows) + "\n" + d[b:]
d = re.sub(r"\(\d+ sub-campaigns", "(%d sub-campaigns" % n, d)
open(os.path.join(ROOT, "DESIGN.md"), "w").write(d)
print(n, "sub-campaigns")
